(** Row identity: a reachable-state invariant of the table.

    In every table reachable from the empty table by any sequence of input lines, under any
    option set and any clock, a row stored under key [k]
      - carries that address in its own [icao] field,
      - carries the country code of that address in [reg],
      - has a non-zero address,
      - has an address below 2^24.

    Why it holds:
      - a new row is [row_from_downlink .. d a]: [icao := a], [reg := icao_to_country a], then
        [update_from_downlink];
      - [plane_update] never writes [icao] or [reg] (footprint);
      - [update_from_downlink] never writes [reg]; it writes [icao] only for a Comm-B downlink
        [DMds _ (Some v)], and that [v] is what [mds_from_message] got from
        [get_icao m df] for the df of the same frame: the very [a] used as the key by [step_line];
      - [upsert] writes one entry under its own key, [cleanup] only filters;
      - [get_icao] drops address 0, and on a frame accepted by [get_message] its result is a
        24-bit field, or the xor of a 24-bit field and a CRC register shifted right by 8. *)
From SQ Require Import Base RangeSpec Frame Table Footprint TableProofs TotalPipeline CrcProof
                       ExpiryProof.
Local Open Scope N_scope.

Definition row_ok (k : N) (r : row) : Prop :=
  icao r = k /\ reg r = icao_to_country k /\ k <> 0 /\ k < 16777216.

Definition row_ident (t : table) : Prop :=
  forall k r, In (k, r) t -> icao r = k /\ reg r = icao_to_country k /\ k <> 0 /\ k < 16777216.

(** ======================= 1. the address is non-zero and has 24 bits ======================= *)

Lemma get_icao_nonzero m df a : get_icao m df = Ok (Some a) -> a <> 0.
Proof.
  unfold get_icao, nonzero, ofilter. intros H.
  destruct (ap_format df).
  - destruct (Nat.ltb _ _); [discriminate H|].
    destruct (range_value m _ _) as [[r|]|]; cbn [bind] in H; try discriminate H.
    destruct (get_crc m df) as [c|]; cbn [bind] in H; [|discriminate H].
    destruct (negb (N.lxor r c =? 0)) eqn:E; inversion H; subst a.
    apply negb_true_iff in E. apply N.eqb_neq in E. exact E.
  - destruct (range_value m 9 32) as [[r|]|]; cbn [bind] in H; try discriminate H.
    destruct (negb (r =? 0)) eqn:E; inversion H; subst a.
    apply negb_true_iff in E. apply N.eqb_neq in E. exact E.
Qed.

Lemma Ok_inj {A} (a b : A) : Ok a = Ok b -> a = b.
Proof. intros H. injection H as H. exact H. Qed.

Lemma Some_inj {A} (a b : A) : Some a = Some b -> a = b.
Proof. intros H. injection H as H. exact H. Qed.

Lemma lxor_lt a b n : a < 2 ^ n -> b < 2 ^ n -> N.lxor a b < 2 ^ n.
Proof.
  intros Ha Hb. apply bits_lt_pow2. intros i Hi.
  rewrite N.lxor_spec, (lt_pow2_bits a n i Ha Hi), (lt_pow2_bits b n i Hb Hi). reflexivity.
Qed.

Lemma shl32_lt a k : shl32 a k < 2 ^ 32.
Proof.
  unfold shl32. change 4294967295 with (N.ones 32). rewrite N.land_ones.
  apply N.mod_lt. discriminate.
Qed.

Lemma shiftr8_lt x : x < 2 ^ 32 -> N.shiftr x 8 < 2 ^ 24.
Proof.
  intros Hx. rewrite N.shiftr_div_pow2. apply N.div_lt_upper_bound; [discriminate|].
  change (2 ^ 8 * 2 ^ 24) with (2 ^ 32). exact Hx.
Qed.

Lemma crc56_step_lt d : crc56_step d < 2 ^ 32.
Proof. unfold crc56_step. apply shl32_lt. Qed.

Lemma crc112_step_lt s : fst (fst (crc112_step s)) < 2 ^ 32.
Proof.
  destruct s as [[d d1] d2]. rewrite crc112_step_alt. cbn [fst].
  apply lxor_lt; [apply shl32_lt|]. destruct (msb32 d1); reflexivity.
Qed.

Lemma iter_crc56_lt n d : Frame.iter (S n) crc56_step d < 2 ^ 32.
Proof.
  revert d. induction n as [|n IH]; intros d.
  - cbn [Frame.iter]. apply crc56_step_lt.
  - change (Frame.iter (S n) crc56_step (crc56_step d) < 2 ^ 32). apply IH.
Qed.

Lemma iter_crc112_lt n s : fst (fst (Frame.iter (S n) crc112_step s)) < 2 ^ 32.
Proof.
  revert s. induction n as [|n IH]; intros s.
  - cbn [Frame.iter]. apply crc112_step_lt.
  - change (fst (fst (Frame.iter (S n) crc112_step (crc112_step s))) < 2 ^ 32). apply IH.
Qed.

Lemma crc56_reg_lt d : crc56_reg d < 2 ^ 24.
Proof. unfold crc56_reg. apply shiftr8_lt. exact (iter_crc56_lt 31 d). Qed.

Lemma crc112_reg_lt d d1 d2 : crc112_reg d d1 d2 < 2 ^ 24.
Proof.
  unfold crc112_reg. pose proof (iter_crc112_lt 87 (d, d1, d2)) as B.
  destruct (Frame.iter 88 crc112_step (d, d1, d2)) as [[x y] z]. cbn [fst] in B.
  apply shiftr8_lt. exact B.
Qed.

Lemma crc56_lt m c : crc56 m = Ok c -> c < 2 ^ 24.
Proof.
  intros H.
  destruct (range_value m 1 32) as [[d|]|] eqn:R0.
  - rewrite (crc56_unfold m d R0) in H. apply Ok_inj in H. subst c. apply crc56_reg_lt.
  - unfold crc56 in H. rewrite R0 in H. discriminate H.
  - unfold crc56 in H. rewrite R0 in H. discriminate H.
Qed.

Lemma crc112_lt m c : crc112 m = Ok c -> c < 2 ^ 24.
Proof.
  intros H.
  destruct (range_value m 1 32) as [[d|]|] eqn:R0;
    [|unfold crc112 in H; rewrite R0 in H; discriminate H ..].
  destruct (range_value m 33 64) as [[d1|]|] eqn:R1;
    [|unfold crc112 in H; rewrite R0, R1 in H; discriminate H ..].
  destruct (range_value m 65 88) as [[d2|]|] eqn:R2;
    [|unfold crc112 in H; rewrite R0, R1, R2 in H; discriminate H ..].
  rewrite (crc112_unfold m d d1 d2 R0 R1 R2) in H. apply Ok_inj in H. subst c.
  apply crc112_reg_lt.
Qed.

Lemma get_crc_lt m df c : get_crc m df = Ok c -> c < 2 ^ 24.
Proof.
  unfold get_crc. intros H. destruct (df <=? 15); [exact (crc56_lt m c H) | exact (crc112_lt m c H)].
Qed.

(** the address of a frame accepted by [get_message] is a 24-bit value, for every format *)
Lemma get_icao_lt m df a : frame_ok m -> get_icao m df = Ok (Some a) -> a < 16777216.
Proof.
  intros [W C] H. change 16777216 with (2 ^ 24).
  assert (forall o x, nonzero o = Some x -> o = Some x) as NZ.
  { intros o x. unfold nonzero, ofilter. destruct o as [y|]; [|discriminate].
    destruct (negb (y =? 0)); [tauto | discriminate]. }
  unfold get_icao in H. cbv zeta in H.
  destruct (ap_format df).
  - destruct C as [[L _]|[L _]]; rewrite L in H.
    + change (14 * 4)%nat with 56%nat in H. change (56 - 23)%nat with 33%nat in H.
      change (Nat.ltb 56 23) with false in H. cbv iota in H.
      rewrite range_value_spec in H by (try exact W; try rewrite L; lia). cbn [bind] in H.
      destruct (get_crc m df) as [c|] eqn:GC; cbn [bind] in H; [|discriminate H].
      apply Ok_inj in H. apply NZ in H. apply Some_inj in H. subst a.
      apply lxor_lt; [exact (field_bound m 33 56) | exact (get_crc_lt m df c GC)].
    + change (28 * 4)%nat with 112%nat in H. change (112 - 23)%nat with 89%nat in H.
      change (Nat.ltb 112 23) with false in H. cbv iota in H.
      rewrite range_value_spec in H by (try exact W; try rewrite L; lia). cbn [bind] in H.
      destruct (get_crc m df) as [c|] eqn:GC; cbn [bind] in H; [|discriminate H].
      apply Ok_inj in H. apply NZ in H. apply Some_inj in H. subst a.
      apply lxor_lt; [exact (field_bound m 89 112) | exact (get_crc_lt m df c GC)].
  - assert (32 <= 4 * List.length m)%nat as L32 by (destruct C as [[L _]|[L _]]; rewrite L; lia).
    rewrite range_value_spec in H by (try exact W; lia). cbn [bind] in H.
    apply Ok_inj in H. apply NZ in H. apply Some_inj in H. subst a.
    exact (field_bound m 9 32).
Qed.

(** ======================= 2. the address inside a Comm-B downlink record ======================= *)

(** [Mds::from_message] takes its address from [get_icao] of the frame's own format *)
Lemma mds_from_message_icao m df ao dd ic :
  get_downlink_format m = Ok (Some df) -> get_icao m df = Ok ao ->
  mds_from_message m = Ok (dd, ic) -> ic = ao.
Proof.
  intros GD GI H. unfold mds_from_message in H.
  rewrite GD in H. cbn [bind] in H. rewrite GI in H. cbn [bind] in H.
  destruct (altitude m df) as [al|]; cbn [bind] in H; [|discriminate H].
  inv_res. reflexivity.
Qed.

Lemma df_from_message_mds m df ao dd ic :
  get_downlink_format m = Ok (Some df) -> get_icao m df = Ok ao ->
  df_from_message m = Ok (Some (DMds dd ic)) -> ic = ao.
Proof.
  intros GD GI H. unfold df_from_message in H. rewrite GD in H. cbn [bind] in H.
  destruct (df <=? 16).
  { destruct (srt_from_message m) as [s|]; cbn [bind] in H; [inversion H | discriminate H]. }
  destruct (df =? 17).
  { destruct (ext_from_message m) as [e|]; cbn [bind] in H; [inversion H | discriminate H]. }
  destruct ((df =? 20) || (df =? 21)); [|inversion H].
  destruct (mds_from_message m) as [[d0 i0]|] eqn:M; cbn [bind] in H; [|discriminate H].
  inversion H; subst d0 i0. exact (mds_from_message_icao m df ao dd ic GD GI M).
Qed.

(** ======================= 3. what the row updates do to icao and reg ======================= *)

Definition same_id (r r' : row) : Prop := icao r' = icao r /\ reg r' = reg r.

Lemma modifies_same_id S r r' :
  memf F_icao S = false -> memf F_reg S = false -> modifies S r r' -> same_id r r'.
Proof.
  intros Hi Hr M. split; symmetry; [exact (M F_icao Hi) | exact (M F_reg Hr)].
Qed.

(** case split on every condition of a footprint expression ([memf] itself stays folded) *)
Ltac fp_split := repeat match goal with |- context [if ?c then _ else _] => destruct c end.

Lemma fp_srt_id s f : f = F_icao \/ f = F_reg -> memf f (fp_srt s) = false.
Proof.
  intros [-> | ->]; unfold fp_srt; destruct (s_df s) as [[|p]|]; try reflexivity;
    repeat (destruct p as [p|p|]; try reflexivity).
Qed.

Lemma fp_ext_dl_id tc st f : f = F_icao \/ f = F_reg -> memf f (fp_ext_dl tc st) = false.
Proof. intros [-> | ->]; unfold fp_ext_dl, fp_ext19; fp_split; reflexivity. Qed.

Lemma fp_update_id df tc st f : f = F_icao \/ f = F_reg -> memf f (fp_update df tc st) = false.
Proof.
  intros [-> | ->]; unfold fp_update, fp_bcast, fp_ext, fp_ext19, is_ext, is_commb;
    fp_split; reflexivity.
Qed.

(** Plane::update never writes the address or the country *)
Lemma plane_update_same_id obs now r m df rel r' :
  plane_update obs now r m df rel = Ok r' -> same_id r r'.
Proof.
  intros H.
  assert (exists tc st, is_ext df = true -> get_message_type m = Ok (tc, st)) as [tc [st T]].
  { destruct (is_ext df) eqn:X; [|exists 0, 0; intros X'; discriminate X'].
    pose proof H as H'. unfold plane_update in H'. cbv zeta in H'.
    destruct (update_from_bcast _ m df) as [r1|]; cbn [bind] in H'; [|discriminate H'].
    unfold is_ext in X. rewrite X in H'.
    destruct (update_from_ext obs r1 m df) as [r2|] eqn:U; cbn [bind] in H'; [|discriminate H'].
    unfold update_from_ext in U.
    destruct (get_message_type m) as [[tc st]|]; [|discriminate U].
    exists tc, st. intros _. reflexivity. }
  eapply modifies_same_id; [| | exact (plane_update_fp obs now r m df rel r' tc st T H)];
    apply fp_update_id; [left | right]; reflexivity.
Qed.

(** UpdateFromDownlink never writes the country ... *)
Lemma update_from_downlink_reg obs now r d : reg (update_from_downlink obs now r d) = reg r.
Proof.
  pose proof (update_from_downlink_fp obs now r d F_reg) as M. cbn [same] in M.
  symmetry. apply M. unfold fp_downlink. rewrite memf_app. apply orb_false_intro; [reflexivity|].
  destruct d as [s|e|dd ic]; [apply fp_srt_id | apply fp_ext_dl_id | reflexivity]; right; reflexivity.
Qed.

(** ... and writes the address only from a Comm-B record that has one *)
Lemma update_from_downlink_icao obs now r d :
  icao (update_from_downlink obs now r d) =
  match d with DMds _ (Some v) => v | _ => icao r end.
Proof.
  destruct d as [s|e|dd ic].
  - pose proof (update_from_downlink_fp obs now r (DSrt s) F_icao) as M. cbn [same] in M.
    symmetry. apply M. unfold fp_downlink. rewrite memf_app. apply orb_false_intro; [reflexivity|].
    apply fp_srt_id. left. reflexivity.
  - pose proof (update_from_downlink_fp obs now r (DExt e) F_icao) as M. cbn [same] in M.
    symmetry. apply M. unfold fp_downlink. rewrite memf_app. apply orb_false_intro; [reflexivity|].
    apply fp_ext_dl_id. left. reflexivity.
  - unfold update_from_downlink. cbn [dl_df]. destruct dd as [df|]; destruct ic as [v|]; reflexivity.
Qed.

Lemma update_from_downlink_ok obs now r d a :
  row_ok a r -> (forall dd ic, d = DMds dd ic -> ic = Some a) ->
  row_ok a (update_from_downlink obs now r d).
Proof.
  intros (Hi & Hr & Hz & Hb) Hd. unfold row_ok.
  rewrite update_from_downlink_reg, update_from_downlink_icao.
  repeat split; try assumption.
  destruct d as [s|e|dd ic]; try exact Hi.
  rewrite (Hd dd ic eq_refl). reflexivity.
Qed.

Lemma row_from_downlink_ok obs now d a :
  a <> 0 -> a < 16777216 -> (forall dd ic, d = DMds dd ic -> ic = Some a) ->
  row_ok a (row_from_downlink obs now d a).
Proof.
  intros Hz Hb Hd. unfold row_from_downlink. apply update_from_downlink_ok; [|exact Hd].
  unfold row_ok. repeat split; try assumption; reflexivity.
Qed.

(** ======================= 4. the table operations ======================= *)

Lemma row_ident_nil : row_ident [].
Proof. intros k r []. Qed.

Lemma row_ident_upsert t a r : row_ident t -> row_ok a r -> row_ident (upsert t a r).
Proof.
  intros Ht Hr k r0 I. apply in_upsert in I.
  destruct I as [I | [-> ->]]; [exact (Ht k r0 I) | exact Hr].
Qed.

Lemma row_ident_cleanup t c now da : row_ident t -> row_ident (fst (cleanup t c now da)).
Proof. intros Ht k r I. apply cleanup_in in I. exact (Ht k r I). Qed.

Lemma update_aircraft_row_ident o now t d m df a t' :
  get_downlink_format m = Ok (Some df) -> get_icao m df = Ok (Some a) -> a < 16777216 ->
  df_from_message m = Ok (Some d) ->
  update_aircraft o now t d m df a = Ok t' -> row_ident t -> row_ident t'.
Proof.
  intros GD GI Hb DM U Ht.
  pose proof (get_icao_nonzero m df a GI) as Hz.
  assert (forall dd ic, d = DMds dd ic -> ic = Some a) as Hd.
  { intros dd ic E. subst d. exact (df_from_message_mds m df (Some a) dd ic GD GI DM). }
  unfold update_aircraft in U.
  destruct (lookup t a) as [r|] eqn:L.
  - pose proof (Ht a r (lookup_in t a r L)) as Hr.
    destruct ((df <? 20) && negb (use_update o)).
    + inversion U; subst t'. apply row_ident_upsert; [exact Ht|].
      apply update_from_downlink_ok; [exact Hr | exact Hd].
    + destruct (plane_update (observer o) now r m df (relaxed o)) as [r'|] eqn:P;
        cbn [bind] in U; [|discriminate U].
      inversion U; subst t'. apply row_ident_upsert; [exact Ht|].
      destruct (plane_update_same_id _ _ _ _ _ _ _ P) as [Pi Pr].
      destruct Hr as (Hi & Hg & _ & _). unfold row_ok. rewrite Pi, Pr.
      repeat split; assumption.
  - inversion U; subst t'. apply row_ident_upsert; [exact Ht|].
    apply row_from_downlink_ok; assumption.
Qed.

(** ======================= 5. the reader loop ======================= *)

Theorem step_line_row_ident : forall o now s line s' rf oc,
  step_line o now s line = Ok (s', rf, oc) -> row_ident (tbl s) -> row_ident (tbl s').
Proof.
  intros o now s line s' rf oc H Ht. unfold step_line in H.
  destruct (get_message line) as [[m|]|] eqn:GM; cbn [bind] in H; try discriminate H;
    [|inversion H; subst; exact Ht].
  destruct (get_downlink_format m) as [[df|]|] eqn:GD; cbn [bind] in H; try discriminate H;
    [|inversion H; subst; exact Ht].
  destruct (get_icao m df) as [[a|]|] eqn:GI; cbn [bind] in H; try discriminate H;
    [|inversion H; subst; exact Ht].
  destruct (match filter_df o with Some only => _ | None => false end);
    [inversion H; subst; exact Ht|].
  destruct (df_from_message m) as [d|] eqn:DM; cbn [bind] in H; [|discriminate H].
  destruct d as [d|].
  - destruct (update_aircraft o now (tbl s) d m df a) as [t1|] eqn:U; cbn [bind] in H;
      [|discriminate H].
    set (c0 := if count_df o then _ else cnt s) in H.
    destruct (cleanup t1 c0 now (delete_after o)) as [t2 c2] eqn:C. cbn [bind] in H.
    inversion H; subst s' rf oc; clear H. cbn [tbl].
    assert (t2 = fst (cleanup t1 c0 now (delete_after o))) as -> by (rewrite C; reflexivity).
    apply row_ident_cleanup.
    assert (frame_ok m) as F.
    { destruct (get_message_total line) as [r0 [G F]]. rewrite GM in G. inversion G; subst r0.
      exact (F m eq_refl). }
    exact (update_aircraft_row_ident o now (tbl s) d m df a t1 GD GI (get_icao_lt m df a F GI) DM U Ht).
  - cbn [bind] in H. inversion H; subst. cbn [tbl]. exact Ht.
Qed.

Theorem run_lines_row_ident : forall o now ls s s',
  run_lines o now s ls = Ok s' -> row_ident (tbl s) -> row_ident (tbl s').
Proof.
  intros o now ls. induction ls as [|l t IH]; cbn [run_lines]; intros s s' H Ht.
  - inversion H; subst. exact Ht.
  - destruct (step o now s l) as [[[s1 rf] oc]|] eqn:E; cbn [bind] in H; [|discriminate H].
    apply (IH s1 s' H). destruct l as [line|]; cbn [step] in E.
    + exact (step_line_row_ident o now s line s1 rf oc E Ht).
    + inversion E; subst. exact Ht.
Qed.

Theorem run_timed_row_ident : forall o ls s s',
  run_timed o s ls = Ok s' -> row_ident (tbl s) -> row_ident (tbl s').
Proof.
  intros o ls. induction ls as [|[now line] t IH]; cbn [run_timed]; intros s s' H Ht.
  - inversion H; subst. exact Ht.
  - destruct (step_line o now s line) as [[[s1 rf] oc]|] eqn:E; cbn [bind] in H; [|discriminate H].
    apply (IH s1 s' H). exact (step_line_row_ident o now s line s1 rf oc E Ht).
Qed.

Theorem read_lines_row_ident : forall o now t bs t',
  read_lines o now t bs = Ok t' -> row_ident t -> row_ident t'.
Proof.
  intros o now t bs t' H Ht. unfold read_lines in H.
  destruct (run_lines o now (mkState t (counters_new now (update_s o))) (text_lines bs)) as [s1|] eqn:R;
    cbn [bind] in H; [|discriminate H].
  inversion H; subst t'.
  exact (run_lines_row_ident o now (text_lines bs) _ s1 R Ht).
Qed.

(** every row of every table reachable from the empty table, looked up under its key *)
Theorem reachable_row_ident : forall o now bs t',
  read_lines o now [] bs = Ok t' ->
  forall k r, lookup t' k = Some r ->
    icao r = k /\ reg r = icao_to_country k /\ k <> 0 /\ k < 16777216.
Proof.
  intros o now bs t' H k r L.
  exact (read_lines_row_ident o now [] bs t' H row_ident_nil k r (lookup_in t' k r L)).
Qed.

Print Assumptions step_line_row_ident.
Print Assumptions run_lines_row_ident.
Print Assumptions run_timed_row_ident.
Print Assumptions read_lines_row_ident.
Print Assumptions reachable_row_ident.
