From SQ Require Import Base RangeSpec Decode Velocity VelSpec Update Footprint.
Local Open Scope N_scope.

Lemma bit_at_01 m k : bit_at m k = 0 \/ bit_at m k = 1.
Proof. pose proof (bit_at_lt2 m k). lia. Qed.

Theorem vertical_rate_correct m : wf m -> List.length m = 28%nat ->
  vertical_rate m = Ok (vrate_spec (bit_at m 69) (field m 70 78)).
Proof.
  intros W L. unfold vertical_rate, vrate_spec.
  rewrite flag_and_range_value_spec by (try exact W; rewrite ?L; lia). cbn [bind ofilter].
  destruct (field m 70 78 =? 0) eqn:E; cbn [negb]; [reflexivity|].
  apply N.eqb_neq in E. unfold u32_sub.
  destruct (1 <=? field m 70 78) eqn:F; [|apply N.leb_gt in F; lia]. cbn [bind].
  f_equal. f_equal. rewrite N.shiftl_mul_pow2. change (2 ^ 6) with 64.
  assert (Z.of_N ((field m 70 78 - 1) * 64) = (64 * (Z.of_N (field m 70 78) - 1))%Z) as X by lia.
  rewrite X. reflexivity.
Qed.

Theorem track_and_groundspeed_correct m ss : wf m -> List.length m = 28%nat ->
  track_and_groundspeed m ss =
    Ok (vel_spec ss (bit_at m 46) (field m 47 56) (bit_at m 57) (field m 58 67)).
Proof.
  intros W L. unfold track_and_groundspeed, vel_spec.
  rewrite flag_and_range_value_spec by (try exact W; rewrite ?L; lia). cbn [bind ofilter].
  destruct (field m 47 56 =? 0) eqn:E1; cbn [negb orb]; [reflexivity|].
  rewrite flag_and_range_value_spec by (try exact W; rewrite ?L; lia). cbn [bind ofilter].
  destruct (field m 58 67 =? 0) eqn:E2; cbn [negb]; [reflexivity|].
  assert (N.land (bit_at m 57) 1 = bit_at m 57) as B.
  { destruct (bit_at_01 m 57) as [->| ->]; reflexivity. }
  rewrite B. f_equal. f_equal. f_equal. destruct ss; [rewrite N.mul_comm|]; reflexivity.
Qed.

(** the mathematical content of the ground-speed formula *)
Lemma gs_is_floor_sqrt a b : let g := N.sqrt (a * a + b * b) in g * g <= a * a + b * b < (g + 1) * (g + 1).
Proof. cbv zeta. pose proof (N.sqrt_spec (a * a + b * b) (N.le_0_l _)) as H. rewrite N.add_1_r. exact H. Qed.

(** squitter path: a TC19 frame sets vertical rate (always) and ground speed / track (subtypes 1, 2) *)
Lemma update_from_ext_19_vel r m st r' :
  update_from_ext_19 r m st = Ok r' ->
  exists v, vertical_rate m = Ok v /\ vrate r' = v /\
  (st = 1 \/ st = 2 -> exists t g, track_and_groundspeed m (st =? 2) = Ok (t, g) /\ track r' = t /\ grspeed r' = g).
Proof.
  unfold update_from_ext_19. intros H.
  destruct (vertical_rate m) as [v|]; cbn [bind] in H; [|discriminate].
  exists v. split; [reflexivity|].
  match type of H with bind ?x _ = _ => destruct x as [r1|] eqn:E1; cbn [bind] in H; [|discriminate] end.
  assert (vrate r1 = v) as V1.
  { destruct (r_altitude _) in E1; [destruct (altitude_delta m) as [[d|]|]; cbn [bind] in E1|]; inversion E1; subst; reflexivity. }
  destruct (st =? 1) eqn:S1.
  - destruct (track_and_groundspeed m false) as [[t g]|] eqn:T; cbn [bind] in H; [|discriminate].
    inversion H; subst. split; [first [exact V1 | reflexivity]|]. intros _. apply N.eqb_eq in S1. subst st.
    exists t, g. change (1 =? 2) with false. split; [first [exact T | reflexivity]|split; reflexivity].
  - destruct (st =? 2) eqn:S2.
    + destruct (track_and_groundspeed m true) as [[t g]|] eqn:T; cbn [bind] in H; [|discriminate].
      inversion H; subst. split; [first [exact V1 | reflexivity]|]. intros _. exists t, g. split; [first [exact T | reflexivity]|split; reflexivity].
    + split.
      * destruct ((st =? 3) || (st =? 4)); [destruct (heading m); cbn [bind] in H; [|discriminate]|];
          inversion H; subst; first [exact V1 | reflexivity].
      * intros [->| ->]; discriminate.
Qed.

(** downlink path: the decoded downlink carries the same values and amend_from_ext_19 copies them *)
Lemma amend_from_ext_19_vel r e :
  vrate (amend_from_ext_19 r e) = e_vrate e /\
  (snd (e_mt e) = 1 \/ snd (e_mt e) = 2 ->
   track (amend_from_ext_19 r e) = e_track e /\ grspeed (amend_from_ext_19 r e) = e_grspeed e).
Proof.
  unfold amend_from_ext_19. set (st := snd (e_mt e)).
  destruct (e_alt_delta e); [destruct (r_altitude _)|];
    (destruct (st =? 1) eqn:S1; [|destruct (st =? 2) eqn:S2; [|destruct ((st =? 3) || (st =? 4))]];
     (split; [reflexivity|]); intros D;
     try (split; reflexivity);
     destruct D as [D|D]; rewrite D in *; discriminate).
Qed.
