(** No cross-talk: a frame whose format (and, for DF17/18, type code / subtype) does not carry a
    parameter leaves the corresponding row field unchanged, on both update paths.

    [Spec/Carriers.v] states, from the property, which frames may carry which parameter.
    Here the specification is shown to cover the proved footprints of [Proofs/Footprint.v]:
    both are functions of finitely many tests on df, tc and st, so after replacing df, tc, st by
    [N.min _ 22], [N.min _ 32], [N.min _ 5] the inclusion is a finite boolean sweep. *)
From SQ Require Import Base Update Footprint RowFacts Carriers.
Local Open Scope N_scope.

(** ---- the tests are insensitive to truncation ---- *)
Lemma eqb_min k b n : k < b -> (n =? k) = (N.min n b =? k).
Proof.
  intros H. destruct (N.le_gt_cases n b) as [L|L].
  - rewrite N.min_l by exact L. reflexivity.
  - rewrite N.min_r by lia.
    transitivity false; [apply N.eqb_neq | symmetry; apply N.eqb_neq]; lia.
Qed.

Lemma in_tc_min lo hi b n : hi < b -> in_tc lo hi n = in_tc lo hi (N.min n b).
Proof.
  intros H. destruct (N.le_gt_cases n b) as [L|L].
  - rewrite N.min_l by exact L. reflexivity.
  - rewrite N.min_r by lia. unfold in_tc.
    transitivity false; [|symmetry]; apply andb_false_intro2; apply N.leb_gt; lia.
Qed.

Ltac norm_tests df tc st :=
  rewrite ?(eqb_min 4 22 df), ?(eqb_min 5 22 df), ?(eqb_min 11 22 df), ?(eqb_min 17 22 df),
          ?(eqb_min 18 22 df), ?(eqb_min 20 22 df), ?(eqb_min 21 22 df),
          ?(eqb_min 19 32 tc), ?(eqb_min 31 32 tc),
          ?(in_tc_min 1 4 32 tc), ?(in_tc_min 5 8 32 tc), ?(in_tc_min 9 18 32 tc),
          ?(in_tc_min 5 18 32 tc), ?(in_tc_min 20 22 32 tc),
          ?(eqb_min 1 5 st), ?(eqb_min 2 5 st), ?(eqb_min 3 5 st), ?(eqb_min 4 5 st)
    by reflexivity.

Lemma carrier_norm f df tc st :
  carrier f df tc st = carrier f (N.min df 22) (N.min tc 32) (N.min st 5).
Proof.
  unfold carrier, adsb, commb, vel_gs, vel_as. norm_tests df tc st. reflexivity.
Qed.

Lemma fp_update_norm df tc st :
  fp_update df tc st = fp_update (N.min df 22) (N.min tc 32) (N.min st 5).
Proof.
  unfold fp_update, fp_bcast, fp_ext, fp_ext19, is_ext, is_commb. norm_tests df tc st. reflexivity.
Qed.

(** ---- finite enumerations ---- *)
Definition upto (n : nat) : list N := map N.of_nat (seq 0 n).

Lemma in_upto n k : k < N.of_nat n -> In k (upto n).
Proof.
  intros H. unfold upto. rewrite <- (N2Nat.id k). apply in_map. apply in_seq. lia.
Qed.

Definition all_fld : list fld :=
  [F_icao; F_cap_ca; F_cap; F_category; F_reg; F_ais; F_altitude; F_altitude_gnss;
   F_altitude_source; F_selected_altitude; F_baro; F_tas_src; F_squawk; F_surv; F_threat;
   F_vrate; F_vrate_source; F_cpr_lat0; F_cpr_lat1; F_cpr_lon0; F_cpr_lon1; F_cpr_t0; F_cpr_t1;
   F_cpr_s0; F_cpr_s1; F_lat; F_lon; F_dist; F_grspeed; F_tas; F_ias; F_mach; F_gm; F_turn;
   F_track; F_track_source; F_heading; F_heading_source; F_roll; F_tar; F_b5t; F_temp; F_wind;
   F_turb; F_hum; F_pres; F_timestamp; F_pos_t; F_track_t; F_heading_t; F_last_tc; F_last_df;
   F_version].

Lemma in_all_fld f : In f all_fld.
Proof. destruct f; unfold all_fld; repeat first [left; reflexivity | right]. Qed.

(** ---- the sweep: 53 fields x 23 x 33 x 6 ---- *)
Definition covers (f : fld) (df tc st : N) : bool :=
  implb (negb (carrier f df tc st)) (negb (memf f (fp_update df tc st))).

Lemma forallb_In {A} (p : A -> bool) l x : forallb p l = true -> In x l -> p x = true.
Proof. intros H. exact (proj1 (forallb_forall p l) H x). Qed.

(** stated without an intermediate constant, so that the kernel never has to compare a folded
    and an unfolded sweep *)
Lemma sweep_ok :
  forallb (fun f => forallb (fun df => forallb (fun tc => forallb (fun st =>
    covers f df tc st) (upto 6)) (upto 33)) (upto 23)) all_fld = true.
Proof. vm_compute. reflexivity. Qed.

Lemma covers_small f df tc st : df < 23 -> tc < 33 -> st < 6 -> covers f df tc st = true.
Proof.
  intros Hd Ht Hs.
  pose proof (forallb_In _ _ f sweep_ok (in_all_fld f)) as H1. cbv beta in H1.
  pose proof (forallb_In _ _ df H1 (in_upto 23 df Hd)) as H2. cbv beta in H2.
  pose proof (forallb_In _ _ tc H2 (in_upto 33 tc Ht)) as H3. cbv beta in H3.
  exact (forallb_In _ _ st H3 (in_upto 6 st Hs)).
Qed.

(** the specification covers the proved footprint of the squitter path *)
Lemma carrier_covers_fp : forall f df tc st,
  carrier f df tc st = false -> memf f (fp_update df tc st) = false.
Proof.
  intros f df tc st H. rewrite carrier_norm in H. rewrite fp_update_norm.
  assert (covers f (N.min df 22) (N.min tc 32) (N.min st 5) = true) as C
    by (apply covers_small; lia).
  unfold covers in C. rewrite H in C. cbn [negb implb] in C.
  destruct (memf _ _); [discriminate C | reflexivity].
Qed.

(** ================= squitter path ================= *)
Lemma adsb_is_ext df : adsb df = is_ext df.
Proof. reflexivity. Qed.

Theorem no_crosstalk_squitter_path : forall obs now r m df relaxed r' f,
  plane_update obs now r m df relaxed = Ok r' ->
  (forall tc st, (is_ext df = true -> get_message_type m = Ok (tc, st)) -> carrier f df tc st = false) ->
  same f r r'.
Proof.
  intros obs now r m df relaxed r' f H C.
  destruct (Sumbool.sumbool_of_bool (is_ext df)) as [X|X].
  - destruct (plane_update_mt _ _ _ _ _ _ _ H X) as [tc [st T]].
    apply (plane_update_fp obs now r m df relaxed r' tc st (fun _ => T) H f).
    apply carrier_covers_fp. apply C. intros _. exact T.
  - assert (is_ext df = true -> get_message_type m = Ok (0, 0)) as T by (intros Y; congruence).
    apply (plane_update_fp obs now r m df relaxed r' 0 0 T H f).
    apply carrier_covers_fp. apply C. exact T.
Qed.

(** for formats other than DF17/18 the type code plays no role *)
Corollary no_crosstalk_squitter_short : forall obs now r m df relaxed r' f,
  plane_update obs now r m df relaxed = Ok r' -> is_ext df = false ->
  carrier f df 0 0 = false -> same f r r'.
Proof.
  intros obs now r m df relaxed r' f H X C.
  apply (no_crosstalk_squitter_path obs now r m df relaxed r' f H).
  intros tc st _. rewrite <- C. unfold carrier. rewrite !adsb_is_ext, X. reflexivity.
Qed.

Corollary no_crosstalk_squitter_ext : forall obs now r m df relaxed r' f tc st,
  plane_update obs now r m df relaxed = Ok r' -> get_message_type m = Ok (tc, st) ->
  carrier f df tc st = false -> same f r r'.
Proof.
  intros obs now r m df relaxed r' f tc st H T C.
  apply (no_crosstalk_squitter_path obs now r m df relaxed r' f H).
  intros tc' st' T'. destruct (Sumbool.sumbool_of_bool (is_ext df)) as [X|X].
  - specialize (T' X). rewrite T in T'. inversion T'; subst. exact C.
  - rewrite <- C. unfold carrier. rewrite !adsb_is_ext, X. reflexivity.
Qed.

(** ================= downlink path ================= *)
(** a sharper footprint than [fp_downlink]: last_df is only written when the downlink has a
    format, the address only when the Comm-B reply has one *)
Definition fp_downlink' (d : downlink) : list fld :=
  (F_timestamp :: if is_some (dl_df d) then [F_last_df] else []) ++
  match d with
  | DSrt s => fp_srt s
  | DExt e => fp_ext_dl (fst (e_mt e)) (snd (e_mt e))
  | DMds _ ic => if is_some ic then [F_icao] else []
  end.

Lemma update_from_downlink_fp' obs now r d :
  modifies (fp_downlink' d) r (update_from_downlink obs now r d).
Proof.
  unfold update_from_downlink, fp_downlink'.
  eapply modifies_trans with (b := match dl_df d with
                                   | Some df => r <| timestamp := now |> <| last_df := df |>
                                   | None => r <| timestamp := now |> end).
  { apply modifies_app_l. destruct (dl_df d); mod_one. }
  apply modifies_app_r.
  destruct d as [s|e|df ic].
  - apply update_from_srt_dl_fp.
  - apply update_from_ext_dl_fp.
  - destruct ic; cbn [is_some]; [mod_one | apply modifies_refl].
Qed.

Lemma fp_srt_other s df :
  s_df s = Some df -> df <> 4 -> df <> 5 -> df <> 11 -> fp_srt s = [].
Proof.
  intros E H4 H5 H11. unfold fp_srt. rewrite E.
  destruct df as [|p]; [reflexivity|].
  repeat (destruct p as [p|p|]; try reflexivity); congruence.
Qed.

Lemma fp_srt_in_bcast s df g :
  s_df s = Some df -> memf g (fp_srt s) = true -> memf g (fp_bcast df) = true.
Proof.
  intros E H.
  destruct (N.eq_dec df 4) as [->|H4]; [unfold fp_srt in H; rewrite E in H; exact H|].
  destruct (N.eq_dec df 5) as [->|H5]; [unfold fp_srt in H; rewrite E in H; exact H|].
  destruct (N.eq_dec df 11) as [->|H11]; [unfold fp_srt in H; rewrite E in H; exact H|].
  rewrite (fp_srt_other s df E H4 H5 H11) in H. discriminate H.
Qed.

Lemma carrier_dl_covers_fp : forall f d,
  carrier_dl f d = false -> memf f (fp_downlink' d) = false.
Proof.
  intros f d H. unfold fp_downlink'. destruct d as [s|e|df ic]; cbn [carrier_dl dl_df] in *.
  - destruct (s_df s) as [df|] eqn:E.
    + apply carrier_covers_fp in H. unfold fp_update in H. rewrite !memf_app in H.
      apply orb_false_elim in H. destruct H as [H1 H2].
      apply orb_false_elim in H2. destruct H2 as [H2 _].
      cbn [is_some]. rewrite memf_app. change (F_timestamp :: [F_last_df]) with [F_timestamp; F_last_df].
      rewrite H1. cbn [orb].
      destruct (memf f (fp_srt s)) eqn:M; [|reflexivity].
      rewrite (fp_srt_in_bcast s df f E M) in H2. discriminate H2.
    + unfold fp_srt. rewrite E. cbn [is_some app].
      destruct f; first [discriminate H | reflexivity].
  - apply carrier_covers_fp in H. unfold fp_update in H. rewrite !memf_app in H.
    apply orb_false_elim in H. destruct H as [H1 H2].
    apply orb_false_elim in H2. destruct H2 as [_ H2].
    apply orb_false_elim in H2. destruct H2 as [H2 _].
    change (is_ext 17) with true in H2. cbv iota in H2.
    rewrite memf_app.
    change (fp_ext_dl (fst (e_mt e)) (snd (e_mt e))) with (fp_ext (fst (e_mt e)) (snd (e_mt e))).
    rewrite H2, orb_false_r.
    destruct (is_some (e_df e)); [exact H1|].
    destruct f; first [discriminate H1 | reflexivity].
  - destruct df, ic; destruct f; first [discriminate H | reflexivity].
Qed.

Theorem no_crosstalk_downlink_path : forall obs now r d f,
  carrier_dl f d = false -> same f r (update_from_downlink obs now r d).
Proof.
  intros obs now r d f H.
  apply (update_from_downlink_fp' obs now r d f). apply carrier_dl_covers_fp. exact H.
Qed.

(** ---- the downlink path, stated on the received frame ----
    [df_from_message] classifies by format: DF0-16 short reply, DF17 extended squitter, DF20/21
    Comm-B, everything else (DF18, 19, 22+) an empty short reply.  Whatever [carrier] excludes for
    the frame's format / type code is unchanged, except that a Comm-B reply rewrites the address
    field with the address decoded from the reply (hence [f <> F_icao]). *)
Lemma srt_from_message_df m s df :
  get_downlink_format m = Ok (Some df) -> srt_from_message m = Ok s -> s_df s = Some df.
Proof.
  unfold srt_from_message. intros D H. rewrite D in H. cbn [bind] in H.
  inv_bind H.
  destruct (df =? 4); [inv_bind H; inversion H; reflexivity|].
  destruct (df =? 5); [inv_bind H; inversion H; reflexivity|].
  destruct (df =? 11); [inv_bind H; inversion H; reflexivity|].
  inversion H; reflexivity.
Qed.

Lemma ext_from_message_mt m e df :
  get_downlink_format m = Ok (Some df) -> ext_from_message m = Ok e ->
  get_message_type m = Ok (e_mt e).
Proof.
  unfold ext_from_message. intros D H. rewrite D in H. cbn [bind] in H.
  inv_bind H. inv_bind H. inv_bind H. f_equal.
  cbv zeta in H.
  repeat match type of H with
  | (if ?c then _ else _) = Ok _ => destruct c
  | bind ?x _ = Ok _ => let E := fresh "E" in destruct x eqn:E; cbn [bind] in H; [|discriminate H]
  | (let '(_, _) := ?p in _) = Ok _ => destruct p
  end; inversion H; reflexivity.
Qed.

Theorem no_crosstalk_downlink_message : forall obs now r m df d f,
  get_downlink_format m = Ok (Some df) ->
  df_from_message m = Ok (Some d) ->
  (forall tc st, (df = 17 -> get_message_type m = Ok (tc, st)) -> carrier f df tc st = false) ->
  f <> F_icao ->
  same f r (update_from_downlink obs now r d).
Proof.
  intros obs now r m df d f D H C NI. apply no_crosstalk_downlink_path.
  unfold df_from_message in H. rewrite D in H. cbn [bind] in H.
  destruct (df <=? 16) eqn:L16.
  { destruct (srt_from_message m) as [s|] eqn:E; cbn [bind] in H; [|discriminate H].
    inversion H; subst d. cbn [carrier_dl].
    rewrite (srt_from_message_df m s df D E). apply C.
    intros ->. discriminate L16. }
  destruct (df =? 17) eqn:E17.
  { apply N.eqb_eq in E17. subst df.
    destruct (ext_from_message m) as [e|] eqn:E; cbn [bind] in H; [|discriminate H].
    inversion H; subst d. cbn [carrier_dl].
    apply C. intros _. rewrite (ext_from_message_mt m e 17 D E).
    destruct (e_mt e); reflexivity. }
  assert (carrier f df 0 0 = false) as C0.
  { apply C. intros ->. discriminate E17. }
  destruct ((df =? 20) || (df =? 21)).
  { destruct (mds_from_message m) as [[d0 i0]|] eqn:E; cbn [bind] in H; [|discriminate H].
    inversion H; subst d. cbn [carrier_dl].
    destruct f; cbn in C0 |- *; first [discriminate C0 | congruence | reflexivity]. }
  inversion H; subst d. cbn [carrier_dl srt_new s_df].
  destruct f; cbn in C0 |- *; first [discriminate C0 | reflexivity].
Qed.

(** the specification is also exact with respect to the proved footprint: no clause of [carrier]
    is looser than what [plane_update] can actually touch (informative; not needed above) *)
Lemma exact_sweep_ok :
  forallb (fun f => forallb (fun df => forallb (fun tc => forallb (fun st =>
    Bool.eqb (carrier f df tc st) (memf f (fp_update df tc st))) (upto 6)) (upto 33)) (upto 23)) all_fld = true.
Proof. vm_compute. reflexivity. Qed.

Lemma carrier_exact : forall f df tc st, carrier f df tc st = memf f (fp_update df tc st).
Proof.
  intros f df tc st. rewrite carrier_norm, fp_update_norm.
  assert (N.min df 22 < N.of_nat 23) as Bd by lia.
  assert (N.min tc 32 < N.of_nat 33) as Bt by lia.
  assert (N.min st 5 < N.of_nat 6) as Bs by lia.
  pose proof (forallb_In _ _ f exact_sweep_ok (in_all_fld f)) as H1. cbv beta in H1.
  pose proof (forallb_In _ _ _ H1 (in_upto 23 _ Bd)) as H2. cbv beta in H2.
  pose proof (forallb_In _ _ _ H2 (in_upto 33 _ Bt)) as H3. cbv beta in H3.
  pose proof (forallb_In _ _ _ H3 (in_upto 6 _ Bs)) as H4. cbv beta in H4.
  apply Bool.eqb_prop. exact H4.
Qed.

Print Assumptions no_crosstalk_squitter_path.
Print Assumptions no_crosstalk_downlink_path.
Print Assumptions carrier_exact.
Print Assumptions no_crosstalk_downlink_message.
