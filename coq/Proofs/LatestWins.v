(** Latest carrier wins: the one-step end-to-end facts lifted to ALL interleaved histories.

    Property: "after any interleaved history of frames from several aircraft, every displayed
    parameter of an aircraft equals the value decoded from the most recent frame of that aircraft
    whose format carries that parameter".

    The history theorem is proved ONCE, generically (Section LatestWins), against a REFERENCE FOLD
    that never runs the row updates of the decoder model.  The reference state is an association
    list address -> value; its step looks only at
      (a) the classification of the line ([classify o line]: Skipped or Applied df a),
      (b) the frame of the line ([get_message line]) through three pure functions
          [carries m df] (does this format carry the parameter), [val m] (the specified value) and
          [born m df] (the value in a row CREATED by this frame),
      (c) the set of addresses that survive in the real table after the step (rows disappear only
          through the expiry sweep, which is the subject of ExpiryProof; the reference takes the
          surviving key set as given).
    A history is a list of events (line, surviving keys).  The relation [trace o t h t'] says that
    the reader loop goes from table [t] to table [t'] through the events [h]; every step may be
    taken at ANY time and with ANY counter state, so a trace covers arbitrarily many calls of
    read_lines, not only one [run_lines] at a fixed [now].

    A fourth function [wild m df] marks frames for which no one-step fact is claimed; the
    theorem then holds at every address that received no wild frame (wild frames of OTHER
    aircraft do not matter).

    Instances:
      - the identity code (squawk, DF5/DF21; nothing is wild), from the theorems of EndToEnd;
      - the callsign (DF17 type codes 1..4; DF18/20/21 are wild), from [callsign_end_to_end]
        plus the "untouched" and "created row" facts proved here.
    Section 5 runs both reference folds and the corollaries on a concrete five-aircraft history. *)
From SQ Require Import Base RangeSpec Table Footprint TableProofs TotalPipeline.
From SQ Require Import Id13 SquawkProof RowFacts Ia5 IdentProof.
From SQ Require Import FrameProofs ExpiryProof OptionsProof EndToEnd.
Local Open Scope N_scope.

(** ===================================================================================== *)
(** * 0. Reference maps                                                                   *)
(** ===================================================================================== *)

Definition ref (V : Type) : Type := list (N * V).

Section RefMap.
  Variable V : Type.

  Fixpoint rlookup (t : ref V) (a : N) : option V :=
    match t with
    | [] => None
    | (k, v) :: t' => if k =? a then Some v else rlookup t' a
    end.

  Fixpoint rupsert (t : ref V) (a : N) (v : V) : ref V :=
    match t with
    | [] => [(a, v)]
    | (k, v0) :: t' => if k =? a then (k, v) :: t' else (k, v0) :: rupsert t' a v
    end.

  Definition mem (a : N) (ks : list N) : bool := existsb (N.eqb a) ks.

  (** keep the entries whose address is in [ks] *)
  Definition restrict (t : ref V) (ks : list N) : ref V :=
    filter (fun kv => mem (fst kv) ks) t.

  Lemma mem_In a ks : mem a ks = true <-> In a ks.
  Proof.
    unfold mem. rewrite existsb_exists. split.
    - intros [x [I E]]. apply N.eqb_eq in E. subst x. exact I.
    - intros I. exists a. split; [exact I | apply N.eqb_refl].
  Qed.

  Lemma rlookup_rupsert_same t a v : rlookup (rupsert t a v) a = Some v.
  Proof.
    induction t as [|[k v0] t IH]; cbn.
    - rewrite N.eqb_refl. reflexivity.
    - destruct (k =? a) eqn:E; cbn; rewrite E; [reflexivity | exact IH].
  Qed.

  Lemma rlookup_rupsert_other t a b v : a <> b -> rlookup (rupsert t a v) b = rlookup t b.
  Proof.
    intros Hne. apply N.eqb_neq in Hne.
    induction t as [|[k v0] t IH]; cbn.
    - rewrite Hne. reflexivity.
    - destruct (k =? a) eqn:E; cbn.
      + apply N.eqb_eq in E. subst k. rewrite Hne. reflexivity.
      + rewrite IH. reflexivity.
  Qed.

  Lemma rlookup_restrict t ks b :
    rlookup (restrict t ks) b = if mem b ks then rlookup t b else None.
  Proof.
    unfold restrict. induction t as [|[k v] t IH]; cbn [filter rlookup fst].
    - destruct (mem b ks); reflexivity.
    - destruct (N.eqb_spec k b) as [->|E].
      + destruct (mem b ks) eqn:M; cbn [rlookup].
        * rewrite N.eqb_refl. reflexivity.
        * rewrite IH. reflexivity.
      + destruct (mem k ks); cbn [rlookup]; [destruct (N.eqb_spec k b); [contradiction|]|]; exact IH.
  Qed.
End RefMap.

Arguments rlookup {V} t a.
Arguments rupsert {V} t a v.
Arguments restrict {V} t ks.

(** the projection of a table: address -> parameter *)
Definition proj {V : Type} (p : row -> V) (t : table) : ref V :=
  map (fun kr => (fst kr, p (snd kr))) t.

Lemma rlookup_proj {V : Type} (p : row -> V) t b :
  rlookup (proj p t) b = option_map p (lookup t b).
Proof.
  unfold proj. induction t as [|[k r] t IH]; cbn; [reflexivity|].
  destruct (k =? b); [reflexivity | exact IH].
Qed.

Lemma keys_proj {V : Type} (p : row -> V) t : map fst (proj p t) = keys t.
Proof. unfold proj, keys. rewrite map_map. apply map_ext. intros [k r]. reflexivity. Qed.

(** ===================================================================================== *)
(** * 1. Histories                                                                        *)
(** ===================================================================================== *)

(** an event: the chunk read (None = not UTF-8) and the addresses in the table after it *)
Definition event : Type := (option (list N) * list N)%type.

(** [trace o t h t']: the reader loop goes from table [t] to table [t'] through the events [h];
    each step is one iteration of read_lines, at any time, with any counter state *)
Inductive trace (o : opts) : table -> list event -> table -> Prop :=
| trace_nil t : trace o t [] t
| trace_cons t now c l s1 rf oc h t' :
    step o now (mkState t c) l = Ok (s1, rf, oc) ->
    trace o (tbl s1) h t' ->
    trace o t ((l, keys (tbl s1)) :: h) t'.

Lemma trace_app o t h1 t1 h2 t2 : trace o t h1 t1 -> trace o t1 h2 t2 -> trace o t (h1 ++ h2) t2.
Proof.
  intros T1 T2. induction T1 as [t|t now c l s1 rf oc h t' E T IH]; cbn [app]; [exact T2|].
  econstructor; [exact E | apply IH; exact T2].
Qed.

Lemma trace_app_inv o h1 : forall t h2 t2,
  trace o t (h1 ++ h2) t2 -> exists t1, trace o t h1 t1 /\ trace o t1 h2 t2.
Proof.
  induction h1 as [|e h1 IH]; cbn [app]; intros t h2 t2 T.
  - exists t. split; [constructor | exact T].
  - inversion T as [|t0 now c l s1 rf oc h t' E T']; subst.
    destruct (IH _ _ _ T') as (t1 & A & B). exists t1. split; [|exact B].
    econstructor; eassumption.
Qed.

Lemma trace_nodup o t h t' : trace o t h t' -> NoDup (keys t) -> NoDup (keys t').
Proof.
  intros T. induction T as [t|t now c l s1 rf oc h t' E T IH]; [tauto|].
  intros ND. apply IH. eapply step_nodup; [exact E | exact ND].
Qed.

(** the events of one [run_lines] *)
Fixpoint survivors (o : opts) (now : Z) (s : state) (ls : list (option (list N))) : list (list N) :=
  match ls with
  | [] => []
  | l :: t =>
      match step o now s l with
      | Ok (s1, _, _) => keys (tbl s1) :: survivors o now s1 t
      | Panic _ => []
      end
  end.

Definition history (o : opts) (now : Z) (s : state) (ls : list (option (list N))) : list event :=
  combine ls (survivors o now s ls).

Lemma run_lines_trace o now ls : forall s s',
  run_lines o now s ls = Ok s' -> trace o (tbl s) (history o now s ls) (tbl s').
Proof.
  unfold history. induction ls as [|l t IH]; cbn [run_lines survivors combine]; intros s s' H.
  - inversion H; subst. constructor.
  - destruct (step o now s l) as [[[s1 rf] oc]|] eqn:E; cbn [bind] in H; [|discriminate].
    cbn [combine]. apply (trace_cons o (tbl s) now (cnt s) l s1 rf oc).
    + destruct s; exact E.
    + apply IH. exact H.
Qed.

Lemma history_length o now ls : forall s s',
  run_lines o now s ls = Ok s' -> List.length (history o now s ls) = List.length ls.
Proof.
  unfold history. induction ls as [|l t IH]; cbn [run_lines survivors combine]; intros s s' H; [reflexivity|].
  destruct (step o now s l) as [[[s1 rf] oc]|] eqn:E; cbn [bind] in H; [|discriminate].
  cbn [combine List.length]. f_equal. eapply IH. exact H.
Qed.

(** ===================================================================================== *)
(** * 2. The generic history theorem                                                      *)
(** ===================================================================================== *)

(** is [l] an applied line of [a] whose (frame, format) satisfies [f] *)
Definition line_test (o : opts) (f : list N -> N -> bool) (a : N) (l : option (list N)) : bool :=
  match l with
  | None => false
  | Some line =>
      match classify o line, get_message line with
      | Ok (Applied df a'), Ok (Some m) => (a' =? a) && f m df
      | _, _ => false
      end
  end.

Lemma line_test_never o a l : line_test o (fun _ _ => false) a l = false.
Proof.
  unfold line_test. destruct l as [line|]; [|reflexivity].
  destruct (classify o line) as [[|df a']|]; try reflexivity.
  destruct (get_message line) as [[m|]|]; try reflexivity. apply andb_false_r.
Qed.

Section LatestWins.
  Variable o : opts.
  Hypothesis Hda : (0 < delete_after o)%Z.

  Variable V : Type.
  Variable p : row -> V.                       (* the displayed parameter *)
  Variable carries : list N -> N -> bool.      (* frame, format: does it carry the parameter *)
  Variable val : list N -> V.                  (* the value a carrier frame specifies *)
  Variable born : list N -> N -> V.            (* the value in a row created by this frame *)
  Variable wild : list N -> N -> bool.         (* frames for which no one-step fact is claimed *)

  (** the one-step facts (EndToEnd supplies them for the instances) *)
  Hypothesis one_sets : forall now s line s' rf df a r m,
    step_line o now s line = Ok (s', rf, Applied df a) -> lookup (tbl s) a = Some r ->
    get_message line = Ok (Some m) -> wild m df = false -> carries m df = true ->
    exists r', lookup (tbl s') a = Some r' /\ p r' = val m.
  Hypothesis one_keeps : forall now s line s' rf df a r m,
    step_line o now s line = Ok (s', rf, Applied df a) -> lookup (tbl s) a = Some r ->
    get_message line = Ok (Some m) -> wild m df = false -> carries m df = false ->
    exists r', lookup (tbl s') a = Some r' /\ p r' = p r.
  Hypothesis one_born : forall now s line s' rf df a m,
    step_line o now s line = Ok (s', rf, Applied df a) -> lookup (tbl s) a = None ->
    get_message line = Ok (Some m) -> wild m df = false ->
    exists r', lookup (tbl s') a = Some r' /\ p r' = born m df.

  (** ---- the reference fold ---- *)

  (** an applied frame [m] of format [df] for address [a] *)
  Definition ref_apply (rs : ref V) (m : list N) (df a : N) : ref V :=
    match rlookup rs a with
    | Some _ => if carries m df then rupsert rs a (val m) else rs
    | None => rupsert rs a (born m df)
    end.

  Definition ref_step (rs : ref V) (e : event) : ref V :=
    match fst e with
    | None => rs
    | Some line =>
        match classify o line, get_message line with
        | Ok (Applied df a), Ok (Some m) => restrict (ref_apply rs m df a) (snd e)
        | _, _ => rs
        end
    end.

  Definition ref_run (rs : ref V) (h : list event) : ref V := fold_left ref_step h rs.

  Lemma ref_run_app rs h1 h2 : ref_run rs (h1 ++ h2) = ref_run (ref_run rs h1) h2.
  Proof. apply fold_left_app. Qed.

  Lemma ref_apply_other rs m df a b : b <> a -> rlookup (ref_apply rs m df a) b = rlookup rs b.
  Proof.
    intros Hne. unfold ref_apply.
    destruct (rlookup rs a); [destruct (carries m df)|];
      try reflexivity; apply rlookup_rupsert_other; congruence.
  Qed.

  (** ---- one step, at one address [b] ---- *)
  Lemma ref_step_sound t c now l s1 rf oc rs b :
    step o now (mkState t c) l = Ok (s1, rf, oc) -> NoDup (keys t) ->
    line_test o wild b l = false ->
    rlookup rs b = option_map p (lookup t b) ->
    rlookup (ref_step rs (l, keys (tbl s1))) b = option_map p (lookup (tbl s1) b).
  Proof.
    intros E ND NW R. unfold ref_step. cbn [fst snd].
    destruct l as [line|]; cbn [step] in E; [|inversion E; subst; cbn [tbl]; apply R].
    pose proof (step_line_classify _ _ _ _ _ _ _ E) as C. rewrite C.
    destruct oc as [|df a].
    { apply step_line_skipped in E. destruct E as [-> _]. cbn [tbl]. apply R. }
    destruct (step_line_applied_full _ _ _ _ _ _ _ _ E) as (m & d & t1 & c0 & GM & _).
    rewrite GM. rewrite rlookup_restrict.
    destruct (mem b (keys (tbl s1))) eqn:M.
    - apply mem_In in M. destruct (N.eq_dec b a) as [->|Hne].
      + unfold line_test in NW. rewrite C, GM, N.eqb_refl in NW. cbn [andb] in NW.
        unfold ref_apply. rewrite R.
        destruct (lookup t a) as [r|] eqn:L; cbn [option_map].
        * destruct (carries m df) eqn:Cr.
          -- destruct (one_sets _ _ _ _ _ _ _ r m E L GM NW Cr) as (r' & L' & P).
             rewrite rlookup_rupsert_same, L'. cbn [option_map]. f_equal. symmetry. exact P.
          -- destruct (one_keeps _ _ _ _ _ _ _ r m E L GM NW Cr) as (r' & L' & P).
             rewrite R, L'. cbn [option_map]. f_equal. symmetry. exact P.
        * destruct (one_born _ _ _ _ _ _ _ m E L GM NW) as (r' & L' & P).
          rewrite rlookup_rupsert_same, L'. cbn [option_map]. f_equal. symmetry. exact P.
      + rewrite (ref_apply_other _ _ _ _ _ Hne), R.
        destruct (lookup (tbl s1) b) as [r|] eqn:L'.
        * destruct (step_line_applied _ _ _ _ _ _ _ _ E ND) as (_ & Iso & _).
          cbn [tbl] in Iso. rewrite (Iso _ _ Hne L'). reflexivity.
        * exfalso. apply lookup_none_keys in L'. contradiction.
    - destruct (lookup (tbl s1) b) as [r|] eqn:L'; [exfalso|reflexivity].
      assert (In b (keys (tbl s1))) as I.
      { destruct (in_dec N.eq_dec b (keys (tbl s1))) as [I|I]; [exact I|].
        apply lookup_none_keys in I. congruence. }
      apply mem_In in I. congruence.
  Qed.

  (** ---- all histories ---- *)
  Theorem latest_wins_gen t h t' : trace o t h t' -> NoDup (keys t) ->
    forall rs b, (forall e, In e h -> line_test o wild b (fst e) = false) ->
    rlookup rs b = option_map p (lookup t b) ->
    rlookup (ref_run rs h) b = option_map p (lookup t' b).
  Proof.
    intros T. induction T as [t|t now c l s1 rf oc h t' E T IH]; intros ND rs b NW R.
    - apply R.
    - unfold ref_run. cbn [fold_left]. apply IH.
      + eapply step_nodup; [exact E | exact ND].
      + intros e I. apply NW. right. exact I.
      + eapply ref_step_sound; try eassumption. apply (NW (l, keys (tbl s1))). left. reflexivity.
  Qed.

  (** the projection of the final table IS the reference fold of the history, started from the
      projection of the first table -- at every address that received no wild frame *)
  Theorem latest_wins_trace t h t' : trace o t h t' -> NoDup (keys t) ->
    forall a, (forall e, In e h -> line_test o wild a (fst e) = false) ->
    option_map p (lookup t' a) = rlookup (ref_run (proj p t) h) a.
  Proof.
    intros T ND a NW. symmetry. eapply latest_wins_gen; [exact T | exact ND | exact NW |].
    apply rlookup_proj.
  Qed.

  (** ... in particular for one run of the reader loop at time [now] *)
  Theorem latest_wins_run now s ls s' :
    run_lines o now s ls = Ok s' -> NoDup (keys (tbl s)) ->
    forall a, (forall l, In l ls -> line_test o wild a l = false) ->
    option_map p (lookup (tbl s') a) =
    rlookup (ref_run (proj p (tbl s)) (history o now s ls)) a.
  Proof.
    intros H ND a NW. apply latest_wins_trace; [apply run_lines_trace; exact H | exact ND |].
    intros [l ks] I. apply NW. unfold history in I. apply in_combine_l in I. exact I.
  Qed.

  (** ... and for one call of read_lines *)
  Theorem latest_wins_read now t bs t' :
    read_lines o now t bs = Ok t' -> NoDup (keys t) ->
    forall a, (forall l, In l (text_lines bs) -> line_test o wild a l = false) ->
    option_map p (lookup t' a) =
    rlookup (ref_run (proj p t)
               (history o now (mkState t (counters_new now (update_s o))) (text_lines bs))) a.
  Proof.
    unfold read_lines. intros H ND.
    destruct (run_lines o now _ (text_lines bs)) as [s|] eqn:E; cbn [bind] in H; [|discriminate].
    inversion H; subst t'. apply (latest_wins_run _ _ _ _ E). exact ND.
  Qed.

  (** ---- the most recent carrier frame wins (a fact about the reference fold alone) ---- *)

  Lemma ref_step_keep rs e a v :
    rlookup rs a = Some v -> line_test o carries a (fst e) = false -> In a (snd e) ->
    rlookup (ref_step rs e) a = Some v.
  Proof.
    intros R C I. unfold ref_step. unfold line_test in C.
    destruct (fst e) as [line|]; [|exact R].
    destruct (classify o line) as [[|df a']|]; try exact R.
    destruct (get_message line) as [[m|]|]; try exact R.
    rewrite rlookup_restrict. apply mem_In in I. rewrite I.
    destruct (N.eqb_spec a' a) as [->|Hne].
    - cbn [andb] in C. unfold ref_apply. rewrite R, C. exact R.
    - rewrite ref_apply_other by congruence. exact R.
  Qed.

  Lemma ref_run_keep h : forall rs a v,
    rlookup rs a = Some v ->
    (forall e, In e h -> line_test o carries a (fst e) = false /\ In a (snd e)) ->
    rlookup (ref_run rs h) a = Some v.
  Proof.
    induction h as [|e h IH]; intros rs a v R H; [exact R|].
    unfold ref_run. cbn [fold_left]. apply IH.
    - destruct (H e (or_introl eq_refl)) as [C I]. apply ref_step_keep; assumption.
    - intros e' I. apply H. right. exact I.
  Qed.

  Lemma ref_step_carrier rs line ks df a m :
    classify o line = Ok (Applied df a) -> get_message line = Ok (Some m) -> carries m df = true ->
    In a ks -> rlookup rs a <> None \/ born m df = val m ->
    rlookup (ref_step rs (Some line, ks)) a = Some (val m).
  Proof.
    intros C GM Cr I B. unfold ref_step. cbn [fst snd]. rewrite C, GM, rlookup_restrict.
    apply mem_In in I. rewrite I. unfold ref_apply.
    destruct (rlookup rs a) as [v|].
    - rewrite Cr. apply rlookup_rupsert_same.
    - destruct B as [B|B]; [congruence|]. rewrite B. apply rlookup_rupsert_same.
  Qed.

  (** The corollary.  [t1] is the table before the line (any reachable table: [trace_nodup]); the
      line is an applied carrier line of [a] with frame [m]; either [a] had a row before it or a
      creating frame of this format already stores the value; afterwards no applied carrier line
      (and no wild line) of [a] occurs and [a] is never swept.  Then the final table shows the
      value of THAT frame, whatever else -- frames of other formats for [a], any frames of other
      aircraft (wild ones included), undecodable lines -- is interleaved, and whatever came
      before. *)
  Theorem latest_carrier_wins t1 line ks post t' df a m :
    NoDup (keys t1) ->
    trace o t1 ((Some line, ks) :: post) t' ->
    classify o line = Ok (Applied df a) -> get_message line = Ok (Some m) ->
    carries m df = true -> wild m df = false ->
    In a (keys t1) \/ born m df = val m ->
    (forall e, In e post -> line_test o carries a (fst e) = false /\
                            line_test o wild a (fst e) = false /\ In a (snd e)) ->
    exists r, lookup t' a = Some r /\ p r = val m.
  Proof.
    intros ND1 T2 C GM Cr NWm B Post.
    (* the line itself leaves a row for a *)
    assert (In a ks) as I.
    { inversion T2 as [|t0 now c l s1 rf oc h t'' E T']; subst. cbn [step] in E.
      pose proof (step_line_classify _ _ _ _ _ _ _ E) as C'. rewrite C in C'. inversion C'; subst oc.
      destruct (refresh _ _ _ _ _ _ _ _ E Hda) as (r & L & _).
      destruct (in_dec N.eq_dec a (keys (tbl s1))) as [J|J]; [exact J|].
      apply lookup_none_keys in J. congruence. }
    assert (option_map p (lookup t' a) = rlookup (ref_run (proj p t1) ((Some line, ks) :: post)) a) as W.
    { apply (latest_wins_trace _ _ _ T2 ND1 a). intros e [<-|J].
      - cbn [fst]. unfold line_test. rewrite C, GM, N.eqb_refl. exact NWm.
      - apply (Post e J). }
    change (ref_run (proj p t1) ((Some line, ks) :: post))
      with (ref_run (ref_step (proj p t1) (Some line, ks)) post) in W.
    rewrite (ref_run_keep post _ a (val m)) in W.
    - destruct (lookup t' a) as [r|]; cbn [option_map] in W; [|discriminate].
      exists r. split; [reflexivity|]. inversion W. reflexivity.
    - apply (ref_step_carrier _ _ _ _ _ _ C GM Cr I).
      destruct B as [B|B]; [left|right; exact B].
      rewrite rlookup_proj. destruct (lookup t1 a) eqn:L; [discriminate|].
      apply lookup_none_keys in L. contradiction.
    - intros e J. destruct (Post e J) as (A1 & _ & A3). split; assumption.
  Qed.

  (** In ONE run of the reader loop (one time [now]) the "never swept" premise is free: a row
      written at [now] has age 0 at every later sweep of the same run.  Proved directly from the
      one-step facts (no uniqueness assumption on the table). *)
  Lemma carrier_kept_run now a v post : forall s s',
    run_lines o now s post = Ok s' ->
    (forall l, In l post -> line_test o carries a l = false /\ line_test o wild a l = false) ->
    (exists r, lookup (tbl s) a = Some r /\ timestamp r = now /\ p r = v) ->
    exists r, lookup (tbl s') a = Some r /\ timestamp r = now /\ p r = v.
  Proof.
    induction post as [|l post IH]; cbn [run_lines]; intros s s' H NC Inv.
    - inversion H; subst. exact Inv.
    - destruct (step o now s l) as [[[s1 rf] oc]|] eqn:E; cbn [bind] in H; [|discriminate].
      apply (IH _ _ H); [intros l' I; apply NC; right; exact I|].
      destruct (NC l (or_introl eq_refl)) as [C NW]. clear IH H NC.
      destruct l as [line|]; cbn [step] in E; [|inversion E; subst; exact Inv].
      destruct oc as [|df a'].
      { apply step_line_skipped in E. destruct E as [-> _]. exact Inv. }
      destruct Inv as (r & L & TS & P).
      destruct (N.eq_dec a' a) as [->|Hne].
      + pose proof (step_line_classify _ _ _ _ _ _ _ E) as CL.
        destruct (step_line_applied_full _ _ _ _ _ _ _ _ E) as (m & d & t1 & c0 & GM & _).
        unfold line_test in C, NW. rewrite CL, GM, N.eqb_refl in C, NW. cbn [andb] in C, NW.
        destruct (one_keeps _ _ _ _ _ _ _ r m E L GM NW C) as (r' & L' & P').
        destruct (refresh _ _ _ _ _ _ _ _ E Hda) as (r2 & L2 & T2).
        rewrite L' in L2. inversion L2; subst r2.
        exists r'. repeat split; [exact L' | exact T2 | congruence].
      + exists r. split; [|split; assumption].
        eapply present_strong; [exact E | congruence | exact L |].
        rewrite TS, age_zero. exact Hda.
  Qed.

  Theorem latest_carrier_wins_run now s pre line post s' df a m :
    run_lines o now s (pre ++ Some line :: post) = Ok s' ->
    classify o line = Ok (Applied df a) -> get_message line = Ok (Some m) ->
    carries m df = true -> wild m df = false ->
    (forall s1, run_lines o now s pre = Ok s1 -> In a (keys (tbl s1)) \/ born m df = val m) ->
    (forall l, In l post -> line_test o carries a l = false /\ line_test o wild a l = false) ->
    exists r, lookup (tbl s') a = Some r /\ p r = val m.
  Proof.
    intros H C GM Cr NWm B NC. rewrite run_lines_app in H.
    destruct (run_lines o now s pre) as [s1|] eqn:E1; cbn [bind] in H; [|discriminate].
    cbn [run_lines step] in H.
    destruct (step_line o now s1 line) as [[[s2 rf] oc]|] eqn:E; cbn [bind] in H; [|discriminate].
    pose proof (step_line_classify _ _ _ _ _ _ _ E) as C'. rewrite C in C'. inversion C'; subst oc.
    destruct (refresh _ _ _ _ _ _ _ _ E Hda) as (r2 & L2 & T2).
    assert (p r2 = val m) as P2.
    { destruct (lookup (tbl s1) a) as [r|] eqn:L.
      - destruct (one_sets _ _ _ _ _ _ _ r m E L GM NWm Cr) as (r' & L' & P'). congruence.
      - destruct (one_born _ _ _ _ _ _ _ m E L GM NWm) as (r' & L' & P').
        destruct (B s1 eq_refl) as [I|Bv]; [apply lookup_none_keys in L; contradiction|].
        congruence. }
    destruct (carrier_kept_run now a (val m) post s2 s' H NC) as (r & L & _ & P).
    - exists r2. repeat split; assumption.
    - exists r. split; assumption.
  Qed.
End LatestWins.

(** ===================================================================================== *)
(** * 3. Instance: the identity code (squawk)                                             *)
(** ===================================================================================== *)

(** the downlink path leaves the squawk alone for every frame that is not DF5 *)
Lemma downlink_squawk_keeps_frame obs now r m df d :
  get_downlink_format m = Ok (Some df) -> df <> 5 -> df_from_message m = Ok (Some d) ->
  r_squawk (update_from_downlink obs now r d) = r_squawk r.
Proof.
  intros GD N5 DM. destruct (N.ltb_spec df 20) as [L|L].
  - apply downlink_squawk_keeps. destruct (dl_df_lt20 m df d GD L DM) as [E|E]; rewrite E; congruence.
  - unfold df_from_message in DM. rewrite GD in DM. cbn [bind] in DM.
    assert ((df <=? 16) = false) as E16 by (apply N.leb_gt; lia).
    assert ((df =? 17) = false) as E17 by (apply N.eqb_neq; lia).
    rewrite E16, E17 in DM.
    destruct ((df =? 20) || (df =? 21)).
    + destruct (mds_from_message m) as [[dd ii]|]; cbn [bind] in DM; [|discriminate].
      inversion DM; subst d. destruct dd, ii; reflexivity.
    + inversion DM; subst d. apply downlink_squawk_keeps. cbn. discriminate.
Qed.

(** the row CREATED by a frame: a DF5 frame stores its identity code, every other format
    (DF21 included: creation always takes the downlink path) leaves it blank *)
Lemma squawk_new_row obs now m df a d :
  frame_ok m -> get_downlink_format m = Ok (Some df) -> get_icao m df = Ok (Some a) ->
  df_from_message m = Ok (Some d) ->
  r_squawk (row_from_downlink obs now d a) = if df =? 5 then Some (id_spec m) else None.
Proof.
  intros F GD GI DM. destruct (frame_wf_len8 m F) as [W L8]. unfold row_from_downlink.
  destruct (N.eqb_spec df 5) as [->|N5].
  - destruct (dl_short m 5 d GD ltac:(lia) DM) as (s & -> & S).
    pose proof S as S0.
    unfold srt_from_message in S. rewrite GD in S. cbn [bind] in S. rewrite GI in S. cbn [bind] in S.
    change (5 =? 4) with false in S. change (5 =? 5) with true in S. cbv iota in S.
    destruct (squawk m) as [q|]; cbn [bind] in S; [|discriminate].
    assert (s_df s = Some 5 /\ s_icao s = Some a) as [D I] by (inversion S; split; reflexivity).
    apply (downlink_squawk_spec obs now _ m s S0 D); [rewrite I; discriminate | exact L8 | exact W].
  - rewrite (downlink_squawk_keeps_frame obs now _ m df d GD N5 DM). reflexivity.
Qed.

Definition sq_carries (m : list N) (df : N) : bool := (df =? 5) || (df =? 21).
Definition sq_val (m : list N) : option N := Some (id_spec m).
Definition sq_born (m : list N) (df : N) : option N := if df =? 5 then Some (id_spec m) else None.

Lemma sq_carries_true m df : sq_carries m df = true <-> df = 5 \/ df = 21.
Proof. unfold sq_carries. rewrite orb_true_iff, !N.eqb_eq. tauto. Qed.
Lemma sq_carries_false m df : sq_carries m df = false <-> df <> 5 /\ df <> 21.
Proof. unfold sq_carries. rewrite orb_false_iff, !N.eqb_neq. tauto. Qed.

Definition sq_wild (m : list N) (df : N) : bool := false.

Section Squawk.
  Variable o : opts.
  Hypothesis Hda : (0 < delete_after o)%Z.

  Lemma sq_one_sets : forall now s line s' rf df a r m,
    step_line o now s line = Ok (s', rf, Applied df a) -> lookup (tbl s) a = Some r ->
    get_message line = Ok (Some m) -> sq_wild m df = false -> sq_carries m df = true ->
    exists r', lookup (tbl s') a = Some r' /\ r_squawk r' = sq_val m.
  Proof.
    intros now s line s' rf df a r m E L GM _ C. apply sq_carries_true in C.
    exact (squawk_end_to_end _ _ _ _ _ _ _ _ _ _ E L Hda GM C).
  Qed.

  Lemma sq_one_keeps : forall now s line s' rf df a r m,
    step_line o now s line = Ok (s', rf, Applied df a) -> lookup (tbl s) a = Some r ->
    get_message line = Ok (Some m) -> sq_wild m df = false -> sq_carries m df = false ->
    exists r', lookup (tbl s') a = Some r' /\ r_squawk r' = r_squawk r.
  Proof.
    intros now s line s' rf df a r m E L GM _ C. apply sq_carries_false in C. destruct C as [N5 N21].
    exact (squawk_untouched_end_to_end _ _ _ _ _ _ _ _ _ E L Hda N5 N21).
  Qed.

  Lemma sq_one_born : forall now s line s' rf df a m,
    step_line o now s line = Ok (s', rf, Applied df a) -> lookup (tbl s) a = None ->
    get_message line = Ok (Some m) -> sq_wild m df = false ->
    exists r', lookup (tbl s') a = Some r' /\ r_squawk r' = sq_born m df.
  Proof.
    intros now s line s' rf df a m E L GM _.
    destruct (step_line_new_row _ _ _ _ _ _ _ _ E L Hda) as (m' & d & GM' & F & GD & GI & DM & L').
    rewrite GM in GM'. inversion GM'; subst m'.
    eexists. split; [exact L'|]. apply squawk_new_row; assumption.
  Qed.

  (** the reference fold of the squawk: list (address, squawk) *)
  Definition sq_ref_step : ref (option N) -> event -> ref (option N) :=
    ref_step o (option N) sq_carries sq_val sq_born.
  Definition sq_ref_run : ref (option N) -> list event -> ref (option N) :=
    ref_run o (option N) sq_carries sq_val sq_born.

  (** readable form of the reference step *)
  Lemma sq_ref_step_eq rs l ks :
    sq_ref_step rs (l, ks) =
    match l with
    | None => rs
    | Some line =>
        match classify o line, get_message line with
        | Ok (Applied df a), Ok (Some m) =>
            restrict
              (match rlookup rs a with
               | Some _ => if (df =? 5) || (df =? 21) then rupsert rs a (Some (id_spec m)) else rs
               | None => rupsert rs a (if df =? 5 then Some (id_spec m) else None)
               end) ks
        | _, _ => rs
        end
    end.
  Proof. reflexivity. Qed.

  (** MAIN THEOREM (squawk): after any history the squawk column of the table is the reference
      fold of that history *)
  Theorem squawk_latest_wins_trace t h t' : trace o t h t' -> NoDup (keys t) ->
    forall a, option_map r_squawk (lookup t' a) = rlookup (sq_ref_run (proj r_squawk t) h) a.
  Proof.
    intros T ND a.
    apply (latest_wins_trace o (option N) r_squawk sq_carries sq_val sq_born sq_wild
             sq_one_sets sq_one_keeps sq_one_born t h t' T ND a).
    intros e _. apply line_test_never.
  Qed.

  Theorem squawk_latest_wins now s ls s' :
    run_lines o now s ls = Ok s' -> NoDup (keys (tbl s)) ->
    forall a, option_map r_squawk (lookup (tbl s') a) =
              rlookup (sq_ref_run (proj r_squawk (tbl s)) (history o now s ls)) a.
  Proof.
    intros H ND a.
    apply (latest_wins_run o (option N) r_squawk sq_carries sq_val sq_born sq_wild
             sq_one_sets sq_one_keeps sq_one_born now s ls s' H ND a).
    intros l _. apply line_test_never.
  Qed.

  Theorem squawk_latest_wins_read now t bs t' :
    read_lines o now t bs = Ok t' -> NoDup (keys t) ->
    forall a, option_map r_squawk (lookup t' a) =
              rlookup (sq_ref_run (proj r_squawk t)
                         (history o now (mkState t (counters_new now (update_s o))) (text_lines bs))) a.
  Proof.
    intros H ND a.
    apply (latest_wins_read o (option N) r_squawk sq_carries sq_val sq_born sq_wild
             sq_one_sets sq_one_keeps sq_one_born now t bs t' H ND a).
    intros l _. apply line_test_never.
  Qed.

  (** is [l] an applied DF5/DF21 line of [a] *)
  Definition sq_line (a : N) (l : option (list N)) : bool :=
    match l with
    | None => false
    | Some line =>
        match classify o line with
        | Ok (Applied df a') => (a' =? a) && ((df =? 5) || (df =? 21))
        | _ => false
        end
    end.

  Lemma sq_line_carrier a l : sq_line a l = false -> line_test o sq_carries a l = false.
  Proof.
    unfold sq_line, line_test. destruct l as [line|]; [|reflexivity].
    destruct (classify o line) as [[|df a']|]; try reflexivity.
    destruct (get_message line) as [[m|]|]; try reflexivity. exact (fun H => H).
  Qed.

  (** COROLLARY (any times, any counters, sweeps allowed, any past): the most recent applied
      DF5/DF21 line of [a] decides the squawk of [a], provided [a] is not swept afterwards --
      unless that line is a DF21 that created the row. *)
  Corollary squawk_is_latest_df5_21_trace t1 line ks post t' df a m :
    NoDup (keys t1) ->
    trace o t1 ((Some line, ks) :: post) t' ->
    classify o line = Ok (Applied df a) -> get_message line = Ok (Some m) ->
    df = 5 \/ (df = 21 /\ In a (keys t1)) ->
    (forall e, In e post -> sq_line a (fst e) = false /\ In a (snd e)) ->
    exists r, lookup t' a = Some r /\ r_squawk r = Some (id_spec m).
  Proof.
    intros ND T2 C GM D Post.
    apply (latest_carrier_wins o Hda (option N) r_squawk sq_carries sq_val sq_born sq_wild
             sq_one_sets sq_one_keeps sq_one_born t1 line ks post t' df a m ND T2 C GM).
    - apply sq_carries_true. tauto.
    - reflexivity.
    - destruct D as [->|[_ I]]; [right; reflexivity | left; exact I].
    - intros e I. destruct (Post e I) as [A B].
      split; [apply sq_line_carrier; exact A | split; [apply line_test_never | exact B]].
  Qed.

  (** COROLLARY (one run of the reader loop): no premise about sweeps, no premise on the table *)
  Corollary squawk_is_latest_df5_21 now s pre line post s' df a m :
    run_lines o now s (pre ++ Some line :: post) = Ok s' ->
    classify o line = Ok (Applied df a) -> get_message line = Ok (Some m) ->
    df = 5 \/ (df = 21 /\ forall s1, run_lines o now s pre = Ok s1 -> In a (keys (tbl s1))) ->
    (forall l, In l post -> sq_line a l = false) ->
    exists r, lookup (tbl s') a = Some r /\ r_squawk r = Some (id_spec m).
  Proof.
    intros H C GM D NC.
    apply (latest_carrier_wins_run o Hda (option N) r_squawk sq_carries sq_val sq_born sq_wild
             sq_one_sets sq_one_keeps sq_one_born now s pre line post s' df a m H C GM).
    - apply sq_carries_true. tauto.
    - reflexivity.
    - intros s1 E1. destruct D as [->|[_ I]]; [right; reflexivity | left; exact (I s1 E1)].
    - intros l I. split; [apply sq_line_carrier, NC, I | apply line_test_never].
  Qed.

  (** the exception is real: a DF21 line that creates the row leaves the squawk blank, and it
      stays blank until the next DF5/DF21 line of that aircraft *)
  Corollary squawk_df21_creating now s pre line post s' a m :
    run_lines o now s (pre ++ Some line :: post) = Ok s' ->
    classify o line = Ok (Applied 21 a) -> get_message line = Ok (Some m) ->
    (forall s1, run_lines o now s pre = Ok s1 -> lookup (tbl s1) a = None) ->
    (forall l, In l post -> sq_line a l = false) ->
    exists r, lookup (tbl s') a = Some r /\ r_squawk r = None.
  Proof.
    intros H C GM B NC. rewrite run_lines_app in H.
    destruct (run_lines o now s pre) as [s1|] eqn:E1; cbn [bind] in H; [|discriminate].
    cbn [run_lines step] in H.
    destruct (step_line o now s1 line) as [[[s2 rf] oc]|] eqn:E; cbn [bind] in H; [|discriminate].
    pose proof (step_line_classify _ _ _ _ _ _ _ E) as C'. rewrite C in C'. inversion C'; subst oc.
    destruct (refresh _ _ _ _ _ _ _ _ E Hda) as (r2 & L2 & T2).
    destruct (sq_one_born _ _ _ _ _ _ _ m E (B s1 eq_refl) GM eq_refl) as (r' & L' & P').
    destruct (carrier_kept_run o Hda (option N) r_squawk sq_carries sq_wild sq_one_keeps
                now a None post s2 s' H) as (r & L & _ & P).
    - intros l I. split; [apply sq_line_carrier, NC, I | apply line_test_never].
    - change (sq_born m 21) with (@None N) in P'.
      exists r2. repeat split; [exact L2 | exact T2 | congruence].
    - exists r. split; assumption.
  Qed.
End Squawk.

(** ===================================================================================== *)
(** * 4. Second instance: the callsign (DF17, type codes 1..4)                            *)
(** ===================================================================================== *)

(** The callsign is also written by Comm-B replies (DF20/21, BDS 2,0) -- but only when the row's
    capability or -r allows the Comm-B decoders, which is not a function of the frame -- and by
    DF18 with -U only.  These three formats are declared [wild]: the theorem speaks about every
    aircraft that received none of them (frames of these formats for OTHER aircraft do not
    matter). *)
Definition cs_carries (m : list N) (df : N) : bool := (df =? 17) && in_tc 1 4 (field m 33 37).
Definition cs_wild (m : list N) (df : N) : bool := (df =? 18) || (df =? 20) || (df =? 21).
Definition cs_val (m : list N) : option (list N) := Some (ais_spec m).
Definition cs_born (m : list N) (df : N) : option (list N) :=
  if cs_carries m df then Some (ais_spec m) else None.

Lemma cs_wild_false m df : cs_wild m df = false -> df <> 18 /\ df <> 20 /\ df <> 21.
Proof. unfold cs_wild. rewrite !orb_false_iff, !N.eqb_neq. tauto. Qed.

Lemma memf_ais_ext tc st : in_tc 1 4 tc = false -> memf F_ais (fp_ext tc st) = false.
Proof.
  intros T. unfold fp_ext, fp_ext19. rewrite T. cbn [memf].
  destruct (fld_eq_dec F_ais F_last_tc); [discriminate|].
  repeat match goal with |- context [if ?c then _ else _] => destruct c end; reflexivity.
Qed.

Lemma memf_ais_srt s : memf F_ais (fp_srt s) = false.
Proof.
  unfold fp_srt. destruct (s_df s) as [[|q]|]; try reflexivity.
  repeat (destruct q as [q|q|]; try reflexivity).
Qed.

(** Plane::update leaves the callsign alone, except DF17/18 TC1..4 and DF20/21 *)
Lemma plane_update_ais_keeps obs now r m df rel r' :
  frame_ok m -> get_downlink_format m = Ok (Some df) ->
  plane_update obs now r m df rel = Ok r' ->
  cs_wild m df = false -> cs_carries m df = false -> r_ais r' = r_ais r.
Proof.
  intros F GD PU Wd Cr. symmetry. apply cs_wild_false in Wd. destruct Wd as (N18 & N20 & N21).
  destruct (N.eqb_spec df 17) as [->|N17].
  - destruct (df17_frame m F GD) as (W & L28 & MT).
    unfold cs_carries in Cr. change (17 =? 17) with true in Cr. cbn [andb] in Cr.
    apply (plane_update_fp obs now r m 17 rel r' _ _ (fun _ => MT) PU F_ais).
    unfold fp_update. rewrite !memf_app.
    change (is_ext 17) with true. change (is_commb 17) with false. cbv iota.
    rewrite (memf_ais_ext _ _ Cr). reflexivity.
  - apply (plane_update_frame obs now r m df rel r' F_ais PU). intros tc st.
    unfold fp_update, is_ext, is_commb, fp_bcast.
    apply N.eqb_neq in N17, N18, N20, N21. rewrite N17, N18, N20, N21. cbn [orb].
    rewrite !memf_app.
    destruct ((df =? 4) || false); destruct ((df =? 5) || false); destruct ((df =? 11) || false); reflexivity.
Qed.

(** DF::from_message + update_from_downlink leaves it alone, except DF17 TC1..4 *)
Lemma downlink_ais_keeps_frame obs now r m df a d :
  frame_ok m -> get_downlink_format m = Ok (Some df) -> get_icao m df = Ok (Some a) ->
  df_from_message m = Ok (Some d) -> cs_carries m df = false ->
  r_ais (update_from_downlink obs now r d) = r_ais r.
Proof.
  intros F GD GI DM Cr. destruct (N.eqb_spec df 17) as [->|N17].
  - destruct (plane_update_total obs now r m 17 false F GD) as [r1 PU].
    pose proof (u_neutral_df17 obs now r r m d false r1 a (agree_refl r) GD GI DM PU) as A.
    destruct (agree_fields _ _ A) as (E & _). rewrite <- E.
    exact (plane_update_ais_keeps _ _ _ _ _ _ _ F GD PU eq_refl Cr).
  - symmetry. apply (update_from_downlink_frame obs now r d F_ais).
    unfold fp_downlink. rewrite memf_app.
    unfold df_from_message in DM. rewrite GD in DM. cbn [bind] in DM.
    destruct (df <=? 16).
    { destruct (srt_from_message m) as [s|]; cbn [bind] in DM; [|discriminate].
      inversion DM; subst d. rewrite memf_ais_srt. reflexivity. }
    apply N.eqb_neq in N17. rewrite N17 in DM.
    destruct ((df =? 20) || (df =? 21)).
    + destruct (mds_from_message m) as [[dd ii]|]; cbn [bind] in DM; [|discriminate].
      inversion DM; subst d. reflexivity.
    + inversion DM; subst d. reflexivity.
Qed.

(** the row CREATED by a frame *)
Lemma callsign_new_row obs now m df a d :
  frame_ok m -> get_downlink_format m = Ok (Some df) -> get_icao m df = Ok (Some a) ->
  df_from_message m = Ok (Some d) ->
  r_ais (row_from_downlink obs now d a) = cs_born m df.
Proof.
  intros F GD GI DM. unfold row_from_downlink, cs_born.
  set (r0 := row_new now <| icao := a |> <| reg := icao_to_country a |>).
  destruct (cs_carries m df) eqn:Cr.
  - unfold cs_carries in Cr. apply andb_prop in Cr. destruct Cr as [E17 TC].
    apply N.eqb_eq in E17. subst df.
    destruct (df17_frame m F GD) as (W & L28 & MT).
    destruct (plane_update_total obs now r0 m 17 false F GD) as [r1 PU].
    pose proof (u_neutral_df17 obs now r0 r0 m d false r1 a (agree_refl r0) GD GI DM PU) as A.
    destruct (agree_fields _ _ A) as (E & _). rewrite <- E.
    destruct (plane_update_ext _ _ _ _ _ _ PU) as (c & _ & U).
    destruct (update_from_ext_ident _ _ _ _ _ _ _ MT TC U) as (x & AX & RX & _).
    rewrite (ais_correct m W ltac:(lia)) in AX. inversion AX. congruence.
  - rewrite (downlink_ais_keeps_frame obs now r0 m df a d F GD GI DM Cr). reflexivity.
Qed.

Section Callsign.
  Variable o : opts.
  Hypothesis Hda : (0 < delete_after o)%Z.

  Lemma cs_one_sets : forall now s line s' rf df a r m,
    step_line o now s line = Ok (s', rf, Applied df a) -> lookup (tbl s) a = Some r ->
    get_message line = Ok (Some m) -> cs_wild m df = false -> cs_carries m df = true ->
    exists r', lookup (tbl s') a = Some r' /\ r_ais r' = cs_val m.
  Proof.
    intros now s line s' rf df a r m E L GM _ C.
    unfold cs_carries in C. apply andb_prop in C. destruct C as [E17 TC].
    apply N.eqb_eq in E17. subst df. apply in_tc_true in TC.
    destruct (callsign_end_to_end _ _ _ _ _ _ _ _ _ E L Hda GM TC) as (r' & L' & A & _).
    exists r'. split; assumption.
  Qed.

  Lemma cs_one_keeps : forall now s line s' rf df a r m,
    step_line o now s line = Ok (s', rf, Applied df a) -> lookup (tbl s) a = Some r ->
    get_message line = Ok (Some m) -> cs_wild m df = false -> cs_carries m df = false ->
    exists r', lookup (tbl s') a = Some r' /\ r_ais r' = r_ais r.
  Proof.
    intros now s line s' rf df a r m E L GM Wd C.
    destruct (existing_row_core _ _ _ _ _ _ _ _ _ _ E L Hda GM) as (F & GD & GI & d & r' & DM & L' & RS).
    exists r'. split; [exact L'|]. destruct RS as [[_ ->]|[_ PU]].
    - eapply downlink_ais_keeps_frame; eassumption.
    - eapply plane_update_ais_keeps; eassumption.
  Qed.

  Lemma cs_one_born : forall now s line s' rf df a m,
    step_line o now s line = Ok (s', rf, Applied df a) -> lookup (tbl s) a = None ->
    get_message line = Ok (Some m) -> cs_wild m df = false ->
    exists r', lookup (tbl s') a = Some r' /\ r_ais r' = cs_born m df.
  Proof.
    intros now s line s' rf df a m E L GM _.
    destruct (step_line_new_row _ _ _ _ _ _ _ _ E L Hda) as (m' & d & GM' & F & GD & GI & DM & L').
    rewrite GM in GM'. inversion GM'; subst m'.
    eexists. split; [exact L'|]. apply callsign_new_row; assumption.
  Qed.

  Definition cs_ref_run : ref (option (list N)) -> list event -> ref (option (list N)) :=
    ref_run o (option (list N)) cs_carries cs_val cs_born.

  (** is [l] an applied DF18/20/21 line of [a] *)
  Definition cs_wild_line (a : N) (l : option (list N)) : bool := line_test o cs_wild a l.
  (** is [l] an applied DF17 identification (TC 1..4) line of [a] *)
  Definition cs_line (a : N) (l : option (list N)) : bool := line_test o cs_carries a l.

  (** MAIN THEOREM (callsign): after any history the callsign column is the reference fold, at
      every address that received no DF18/20/21 frame *)
  Theorem callsign_latest_wins_trace t h t' : trace o t h t' -> NoDup (keys t) ->
    forall a, (forall e, In e h -> cs_wild_line a (fst e) = false) ->
    option_map r_ais (lookup t' a) = rlookup (cs_ref_run (proj r_ais t) h) a.
  Proof.
    exact (latest_wins_trace o (option (list N)) r_ais cs_carries cs_val cs_born cs_wild
             cs_one_sets cs_one_keeps cs_one_born t h t').
  Qed.

  Theorem callsign_latest_wins now s ls s' :
    run_lines o now s ls = Ok s' -> NoDup (keys (tbl s)) ->
    forall a, (forall l, In l ls -> cs_wild_line a l = false) ->
    option_map r_ais (lookup (tbl s') a) =
    rlookup (cs_ref_run (proj r_ais (tbl s)) (history o now s ls)) a.
  Proof.
    exact (latest_wins_run o (option (list N)) r_ais cs_carries cs_val cs_born cs_wild
             cs_one_sets cs_one_keeps cs_one_born now s ls s').
  Qed.

  (** with a -f list that excludes DF18, DF20 and DF21 no line is wild *)
  Lemma cs_filter_no_wild only a l :
    filter_df o = Some only -> ~ In 18 only -> ~ In 20 only -> ~ In 21 only ->
    cs_wild_line a l = false.
  Proof.
    intros Fo N18 N20 N21. unfold cs_wild_line, line_test. destruct l as [line|]; [|reflexivity].
    destruct (classify o line) as [[|df a']|] eqn:C; try reflexivity.
    destruct (get_message line) as [[m|]|]; try reflexivity.
    pose proof (classify_filter _ _ _ _ _ C Fo) as I.
    assert (cs_wild m df = false) as ->; [|apply andb_false_r].
    unfold cs_wild. rewrite !orb_false_iff, !N.eqb_neq. repeat split; intros ->; contradiction.
  Qed.

  Corollary callsign_latest_wins_filtered now s ls s' only :
    filter_df o = Some only -> ~ In 18 only -> ~ In 20 only -> ~ In 21 only ->
    run_lines o now s ls = Ok s' -> NoDup (keys (tbl s)) ->
    forall a, option_map r_ais (lookup (tbl s') a) =
              rlookup (cs_ref_run (proj r_ais (tbl s)) (history o now s ls)) a.
  Proof.
    intros Fo N18 N20 N21 H ND a. apply (callsign_latest_wins _ _ _ _ H ND).
    intros l _. exact (cs_filter_no_wild only a l Fo N18 N20 N21).
  Qed.

  (** COROLLARY (any times, sweeps allowed, any past) *)
  Corollary callsign_is_latest_ident_trace t1 line ks post t' a m :
    NoDup (keys t1) ->
    trace o t1 ((Some line, ks) :: post) t' ->
    classify o line = Ok (Applied 17 a) -> get_message line = Ok (Some m) ->
    1 <= field m 33 37 <= 4 ->
    (forall e, In e post -> cs_line a (fst e) = false /\ cs_wild_line a (fst e) = false /\ In a (snd e)) ->
    exists r, lookup t' a = Some r /\ r_ais r = Some (ais_spec m).
  Proof.
    intros ND T2 C GM TC Post. apply in_tc_true in TC.
    assert (cs_carries m 17 = true) as Cr by (unfold cs_carries; rewrite TC; reflexivity).
    apply (latest_carrier_wins o Hda (option (list N)) r_ais cs_carries cs_val cs_born cs_wild
             cs_one_sets cs_one_keeps cs_one_born t1 line ks post t' 17 a m ND T2 C GM Cr eq_refl).
    - right. unfold cs_born. rewrite Cr. reflexivity.
    - exact Post.
  Qed.

  (** COROLLARY (one run of the reader loop): the most recent applied identification squitter of
      [a] decides the callsign, whether or not it created the row, whatever came before, as long
      as no DF18/20/21 frame of [a] follows *)
  Corollary callsign_is_latest_ident now s pre line post s' a m :
    run_lines o now s (pre ++ Some line :: post) = Ok s' ->
    classify o line = Ok (Applied 17 a) -> get_message line = Ok (Some m) ->
    1 <= field m 33 37 <= 4 ->
    (forall l, In l post -> cs_line a l = false /\ cs_wild_line a l = false) ->
    exists r, lookup (tbl s') a = Some r /\ r_ais r = Some (ais_spec m).
  Proof.
    intros H C GM TC NC. apply in_tc_true in TC.
    assert (cs_carries m 17 = true) as Cr by (unfold cs_carries; rewrite TC; reflexivity).
    apply (latest_carrier_wins_run o Hda (option (list N)) r_ais cs_carries cs_val cs_born cs_wild
             cs_one_sets cs_one_keeps cs_one_born now s pre line post s' 17 a m H C GM Cr eq_refl).
    - intros s1 _. right. unfold cs_born. rewrite Cr. reflexivity.
    - exact NC.
  Qed.
End Callsign.

(** ===================================================================================== *)
(** * 5. The hypotheses are satisfiable: a concrete interleaved history                   *)
(** ===================================================================================== *)

(** "*8D4840D6202CC371C32CE0576098;"  DF17, type code 4, address 4840D6, callsign KLM1023 *)
Definition wit_ident : list N :=
  [42;56;68;52;56;52;48;68;54;50;48;50;67;67;51;55;49;67;51;50;67;69;48;53;55;54;48;57;56;59].
(** "*A8001A1B2C3D4E5566778899AABB;"  DF21, same identity field as ex_line5 (3615); the address comes from the parity *)
Definition wit_df21 : list N :=
  [42;65;56;48;48;49;65;49;66;50;67;51;68;52;69;53;53;54;54;55;55;56;56;57;57;65;65;66;66;59].
Definition wit_m21 : list N :=
  [10;8;0;0;1;10;1;11;2;12;3;13;4;14;5;5;6;6;7;7;8;8;9;9;10;10;11;11].
(** "*A8000B0B2C3D4E5566778899AABB;"  another DF21, another address *)
Definition wit_df21b : list N :=
  [42;65;56;48;48;48;66;48;66;50;67;51;68;52;69;53;53;54;54;55;55;56;56;57;57;65;65;66;66;59].

(** five aircraft interleaved, a chunk that is not UTF-8 and a line that is not a frame *)
Definition wit_pre : list (option (list N)) := [Some wit_df21; Some ex_line5; Some wit_ident; None].
Definition wit_post : list (option (list N)) := [Some ex_line17; Some [42; 59]; Some wit_df21b].
Definition wit_lines : list (option (list N)) := wit_pre ++ Some wit_df21 :: wit_post.
Definition wit_s0 : state := mkState [] (counters_new 0%Z 1%Z).

(** the model and the two reference folds, computed: the first DF21 of 1340132 creates its
    row with a blank squawk, the second one sets it; the DF21 that creates 11283562 leaves it blank *)
Example witness_history : forall u, exists s',
  run_lines (ex_opts u) 1000%Z wit_s0 wit_lines = Ok s' /\
  proj r_squawk (tbl s') =
    [(1340132, Some 3615); (8360486, Some 3615); (4735190, None); (4219421, None); (11283562, None)] /\
  sq_ref_run (ex_opts u) [] (history (ex_opts u) 1000%Z wit_s0 wit_lines) =
    [(1340132, Some 3615); (8360486, Some 3615); (4735190, None); (4219421, None); (11283562, None)] /\
  proj r_ais (tbl s') =
    [(1340132, None); (8360486, None); (4735190, Some [75;76;77;49;48;50;51]); (4219421, None);
     (11283562, None)] /\
  cs_ref_run (ex_opts u) [] (history (ex_opts u) 1000%Z wit_s0 wit_lines) =
    [(1340132, None); (8360486, None); (4735190, Some [75;76;77;49;48;50;51]); (4219421, None);
     (11283562, None)].
Proof.
  intros u. destruct u; (eexists; split; [vm_compute; reflexivity|]; vm_compute; repeat split; reflexivity).
Qed.

Example witness_before_second_df21 : forall u, exists s1,
  run_lines (ex_opts u) 1000%Z wit_s0 wit_pre = Ok s1 /\
  In 1340132 (keys (tbl s1)) /\
  proj r_squawk (tbl s1) = [(1340132, None); (8360486, Some 3615); (4735190, None)].
Proof.
  intros u. destruct u; (eexists; split; [vm_compute; reflexivity|]; vm_compute; split; [tauto | reflexivity]).
Qed.

(** the corollary applied to this history: all its premises hold *)
Example witness_corollary : forall u s',
  run_lines (ex_opts u) 1000%Z wit_s0 wit_lines = Ok s' ->
  exists r, lookup (tbl s') 1340132 = Some r /\ r_squawk r = Some 3615.
Proof.
  intros u s' H.
  assert (id_spec wit_m21 = 3615) as <- by (vm_compute; reflexivity).
  apply (squawk_is_latest_df5_21 (ex_opts u) eq_refl 1000%Z wit_s0 wit_pre wit_df21 wit_post s' 21
           1340132 wit_m21 H).
  - destruct u; vm_compute; reflexivity.
  - vm_compute. reflexivity.
  - right. split; [reflexivity|]. intros s1 E1.
    destruct (witness_before_second_df21 u) as (s & E & I & _). rewrite E in E1. inversion E1; subst. exact I.
  - intros l [<-|[<-|[<-|[]]]]; destruct u; vm_compute; reflexivity.
Qed.

Example witness_callsign : forall u s',
  run_lines (ex_opts u) 1000%Z wit_s0 wit_lines = Ok s' ->
  exists r, lookup (tbl s') 4735190 = Some r /\ r_ais r = Some [75;76;77;49;48;50;51].
Proof.
  intros u s' H.
  assert (exists m, get_message wit_ident = Ok (Some m) /\ ais_spec m = [75;76;77;49;48;50;51] /\
                    1 <= field m 33 37 <= 4) as (m & GM & <- & TC).
  { eexists. split; [vm_compute; reflexivity|]. vm_compute. repeat split; discriminate. }
  apply (callsign_is_latest_ident (ex_opts u) eq_refl 1000%Z wit_s0
           [Some wit_df21; Some ex_line5] wit_ident (None :: Some wit_df21 :: wit_post) s' 4735190 m H).
  - destruct u; vm_compute; reflexivity.
  - exact GM.
  - exact TC.
  - intros l [<-|[<-|[<-|[<-|[<-|[]]]]]]; destruct u; vm_compute; split; reflexivity.
Qed.

(** ===================================================================================== *)
(** * Summary                                                                              *)
(** ===================================================================================== *)
Print Assumptions latest_wins_trace.
Print Assumptions latest_wins_run.
Print Assumptions latest_carrier_wins.
Print Assumptions latest_carrier_wins_run.
Print Assumptions squawk_latest_wins_trace.
Print Assumptions squawk_latest_wins.
Print Assumptions squawk_latest_wins_read.
Print Assumptions squawk_is_latest_df5_21_trace.
Print Assumptions squawk_is_latest_df5_21.
Print Assumptions squawk_df21_creating.
Print Assumptions callsign_latest_wins_trace.
Print Assumptions callsign_latest_wins.
Print Assumptions callsign_latest_wins_filtered.
Print Assumptions callsign_is_latest_ident_trace.
Print Assumptions callsign_is_latest_ident.
Print Assumptions witness_history.
Print Assumptions witness_corollary.
Print Assumptions witness_callsign.
