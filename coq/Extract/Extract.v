(** Extraction of the executable model (and, later, the spec oracles) to OCaml.
    Only ExtrOcamlBasic is used: bool, option, list, prod, unit, sumbool map to OCaml natives;
    N, Z, positive, Q, nat, ascii, string stay the Coq datatypes. *)
From Coq Require Import Extraction ExtrOcamlBasic.
From SQ Require Import ObsCli.
Extraction Language OCaml.
Extraction "sqmodel.ml" run_case2.
