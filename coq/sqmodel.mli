
type __ = Obj.t

val negb : bool -> bool

type nat =
| O
| S of nat

val fst : ('a1 * 'a2) -> 'a1

val snd : ('a1 * 'a2) -> 'a2

val length : 'a1 list -> nat

val app : 'a1 list -> 'a1 list -> 'a1 list

type comparison =
| Eq
| Lt
| Gt

val compOpp : comparison -> comparison

val id : __ -> __

val add : nat -> nat -> nat

val mul : nat -> nat -> nat

val sub : nat -> nat -> nat

val eqb : bool -> bool -> bool

module Nat :
 sig
  val sub : nat -> nat -> nat

  val eqb : nat -> nat -> bool

  val leb : nat -> nat -> bool

  val ltb : nat -> nat -> bool

  val divmod : nat -> nat -> nat -> nat -> nat * nat

  val div : nat -> nat -> nat

  val modulo : nat -> nat -> nat
 end

val nth_error : 'a1 list -> nat -> 'a1 option

val rev : 'a1 list -> 'a1 list

val rev_append : 'a1 list -> 'a1 list -> 'a1 list

val concat : 'a1 list list -> 'a1 list

val map : ('a1 -> 'a2) -> 'a1 list -> 'a2 list

val fold_left : ('a1 -> 'a2 -> 'a1) -> 'a2 list -> 'a1 -> 'a1

val fold_right : ('a2 -> 'a1 -> 'a1) -> 'a1 -> 'a2 list -> 'a1

val existsb : ('a1 -> bool) -> 'a1 list -> bool

val forallb : ('a1 -> bool) -> 'a1 list -> bool

val filter : ('a1 -> bool) -> 'a1 list -> 'a1 list

val firstn : nat -> 'a1 list -> 'a1 list

val skipn : nat -> 'a1 list -> 'a1 list

val repeat : 'a1 -> nat -> 'a1 list

type positive =
| XI of positive
| XO of positive
| XH

type n =
| N0
| Npos of positive

type z =
| Z0
| Zpos of positive
| Zneg of positive

module Pos :
 sig
  type mask =
  | IsNul
  | IsPos of positive
  | IsNeg
 end

module Coq_Pos :
 sig
  val succ : positive -> positive

  val add : positive -> positive -> positive

  val add_carry : positive -> positive -> positive

  val pred_double : positive -> positive

  val pred_N : positive -> n

  type mask = Pos.mask =
  | IsNul
  | IsPos of positive
  | IsNeg

  val succ_double_mask : mask -> mask

  val double_mask : mask -> mask

  val double_pred_mask : positive -> mask

  val sub_mask : positive -> positive -> mask

  val sub_mask_carry : positive -> positive -> mask

  val sub : positive -> positive -> positive

  val mul : positive -> positive -> positive

  val iter : ('a1 -> 'a1) -> 'a1 -> positive -> 'a1

  val pow : positive -> positive -> positive

  val size_nat : positive -> nat

  val size : positive -> positive

  val compare_cont : comparison -> positive -> positive -> comparison

  val compare : positive -> positive -> comparison

  val eqb : positive -> positive -> bool

  val leb : positive -> positive -> bool

  val sqrtrem_step :
    (positive -> positive) -> (positive -> positive) -> (positive * mask) ->
    positive * mask

  val sqrtrem : positive -> positive * mask

  val sqrt : positive -> positive

  val ggcdn : nat -> positive -> positive -> positive * (positive * positive)

  val ggcd : positive -> positive -> positive * (positive * positive)

  val coq_Nsucc_double : n -> n

  val coq_Ndouble : n -> n

  val coq_lor : positive -> positive -> positive

  val coq_land : positive -> positive -> n

  val ldiff : positive -> positive -> n

  val coq_lxor : positive -> positive -> n

  val shiftl : positive -> n -> positive

  val iter_op : ('a1 -> 'a1 -> 'a1) -> positive -> 'a1 -> 'a1

  val to_nat : positive -> nat

  val of_succ_nat : nat -> positive
 end

module N :
 sig
  val succ_double : n -> n

  val double : n -> n

  val succ_pos : n -> positive

  val add : n -> n -> n

  val sub : n -> n -> n

  val mul : n -> n -> n

  val compare : n -> n -> comparison

  val eqb : n -> n -> bool

  val leb : n -> n -> bool

  val ltb : n -> n -> bool

  val div2 : n -> n

  val even : n -> bool

  val odd : n -> bool

  val pow : n -> n -> n

  val log2 : n -> n

  val pos_div_eucl : positive -> n -> n * n

  val div_eucl : n -> n -> n * n

  val div : n -> n -> n

  val modulo : n -> n -> n

  val sqrt : n -> n

  val coq_lor : n -> n -> n

  val coq_land : n -> n -> n

  val ldiff : n -> n -> n

  val coq_lxor : n -> n -> n

  val shiftl : n -> n -> n

  val shiftr : n -> n -> n

  val to_nat : n -> nat

  val of_nat : nat -> n
 end

type ascii =
| Ascii of bool * bool * bool * bool * bool * bool * bool * bool

val eqb0 : ascii -> ascii -> bool

val n_of_digits : bool list -> n

val n_of_ascii : ascii -> n

module Z :
 sig
  val double : z -> z

  val succ_double : z -> z

  val pred_double : z -> z

  val pos_sub : positive -> positive -> z

  val add : z -> z -> z

  val opp : z -> z

  val sub : z -> z -> z

  val mul : z -> z -> z

  val pow_pos : z -> positive -> z

  val pow : z -> z -> z

  val compare : z -> z -> comparison

  val sgn : z -> z

  val leb : z -> z -> bool

  val ltb : z -> z -> bool

  val eqb : z -> z -> bool

  val max : z -> z -> z

  val abs : z -> z

  val to_N : z -> n

  val of_nat : nat -> z

  val of_N : n -> z

  val to_pos : z -> positive

  val pos_div_eucl : positive -> z -> z * z

  val div_eucl : z -> z -> z * z

  val div : z -> z -> z

  val modulo : z -> z -> z

  val quotrem : z -> z -> z * z

  val quot : z -> z -> z

  val rem : z -> z -> z

  val even : z -> bool

  val ggcd : z -> z -> z * (z * z)

  val coq_land : z -> z -> z
 end

val zeq_bool : z -> z -> bool

type string =
| EmptyString
| String of ascii * string

val eqb1 : string -> string -> bool

type q = { qnum : z; qden : positive }

val qcompare : q -> q -> comparison

val qeq_bool : q -> q -> bool

val qle_bool : q -> q -> bool

val qplus : q -> q -> q

val qmult : q -> q -> q

val qopp : q -> q

val qminus : q -> q -> q

val qinv : q -> q

val qdiv : q -> q -> q

val qred : q -> q

type 'a res =
| Ok of 'a
| Panic of string

val bind : 'a1 res -> ('a1 -> 'a2 res) -> 'a2 res

val idx : n list -> nat -> n res

val slice : n list -> nat -> nat -> n list res

val u32_sub : n -> n -> n res

val shl32 : n -> n -> n

val ofilter : ('a1 -> bool) -> 'a1 option -> 'a1 option

val omap : ('a1 -> 'a2) -> 'a1 option -> 'a2 option

val oor : 'a1 option -> 'a1 option -> 'a1 option

val is_some : 'a1 option -> bool

val num_seconds : z -> z -> z

val bit_location : nat -> (nat * nat) res

val range_value : n list -> nat -> nat -> n option res

val flag_value : n list -> nat -> n res

val flag_and_range_value : n list -> nat -> nat -> nat -> (n * n) option res

val status_flag_and_range_value :
  n list -> nat -> nat -> nat -> nat -> ((n * n) * n) option res

val hexval : n -> n option

val filter_map : ('a1 -> 'a2 option) -> 'a1 list -> 'a2 list

val digits : n list -> n list

val clean_squitter : n list -> n list option

val poly : n

val msb32 : n -> bool

val crc56_step : n -> n

val iter0 : nat -> ('a1 -> 'a1) -> 'a1 -> 'a1

val expect : 'a1 option -> string -> 'a1 res

val crc56 : n list -> n res

val crc112_step : ((n * n) * n) -> (n * n) * n

val crc112 : n list -> n res

val get_crc : n list -> n -> n res

val reminder : n list -> n res

val get_message : n list -> n list option res

val get_downlink_format : n list -> n option res

val nonzero : n option -> n option

val ap_format : n -> bool

val get_icao : n list -> n -> n option res

val get_message_type : n list -> (n * n) res

val get_capability : n list -> n res

val ma_bits : (nat * n) list

val ma_top : n

val nl_table : (q * z) list

val nl_default : z

val country_arms : ((n * n) * string) list

val country_default : string

val header_cols : ((string * string) * nat) list

val header_tail : string

val separator_tail : string

val wake_table : ((n * n) * n) list

val ma_go : n list -> (nat * n) list -> n -> n -> n res

val ma_code : n list -> n option res

val me_code : n list -> n option res

val ebit : n -> n -> n

val gray_loop : nat -> n -> n -> bool -> n -> n

val graytobin : n list -> (n * n) res

val f32_mul031_trunc : n -> n

val altitude_value : n list -> n option -> n option res

val altitude : n list -> n -> n option res

val squawk_of_code : n -> n

val squawk : n list -> n option res

val ia5 : n -> n

val ais : n list -> n list option res

val wake_lookup : ((n * n) * n) list -> (n * n) -> n option

val get_wake_turbulence_category : (n * n) -> n option

val threat_encounter : n list -> n option res

val surveillance_status : n list -> n res

val version : n list -> n option res

val vertical_rate : n list -> z option res

val altitude_delta : n list -> z option res

val altitude_gnss : n list -> n option res

val ground_movement : n list -> q option res

val ground_track : n list -> n option res

val heading : n list -> n option res

val tan_den : z

val tan_table : (z * z) list

val le_tan : nat -> z -> z -> z -> bool

val count_le : nat -> (z * z) list -> z -> z -> z

val floor_deg : z -> z -> z

val exact_deg : z -> z -> bool

val ceil_deg : z -> z -> z

val track_of : bool -> z -> bool -> z -> z

val track_and_groundspeed : n list -> bool -> (n option * n option) res

val qfloor : q -> z

val qabs : q -> q

val cpr : n list -> ((n * n) * n) option res

val zrem : z -> z -> z

val fixed_lat : q -> q

val signed_lon : q -> q

val pmod : z -> z -> z

val qlt_bool : q -> q -> bool

val nl_go : (q * z) list -> q -> z

val nl : q -> z

val div17 : q

val qN : n -> q

val qZ : z -> q

val cpr_location : n -> n -> n -> n -> n -> z -> (q * q) option

val bds : n list -> (n * n) res

val goodflags : n list -> nat -> nat -> nat -> bool res

val orelse : bool res -> bool res -> bool res

val andalso : bool res -> bool res -> bool res

val rnot : bool res -> bool res

type capability = { c_flags : n; c20 : bool; c40 : bool; c44 : bool;
                    c50 : bool; c60 : bool }

val cap_default : capability

val is_bds_1_7 : n list -> capability option res

val mcp_selected_altitude : n list -> n option res

val fms_selected_altitude : n list -> n option res

val barometric_pressure_setting : n list -> n option res

val target_altitude_source : n list -> n option res

type bds40 = { b40_mcp : n option; b40_fms : n option; b40_baro : n option;
               b40_src : n option }

val in_range : n -> n -> n -> bool

val is_bds_4_0 : n list -> bds40 option res

val roll_angle_5_0 : n list -> z option res

val track_angle_5_0 : n list -> n option res

val track_angle_rate_5_0 : n list -> z option res

val ground_speed_5_0 : n list -> n option res

val true_airspeed_5_0 : n list -> n option res

type bds50 = { b50_roll : z option; b50_track : n option; b50_tar : z option;
               b50_gs : n option; b50_tas : n option }

val zin_range : z -> z -> z -> bool

val abs_diff : n -> n -> n

val is_bds_5_0 : n list -> bds50 option res

val magnetic_heading_6_0 : n list -> n option res

val indicated_airspeed_6_0 : n list -> n option res

val mach_number_6_0 : n list -> q option res

val barometric_altitude_rate_6_0 : n list -> z option res

val internal_vertical_velocity_6_0 : n list -> z option res

type bds60 = { b60_hdg : n option; b60_ias : n option; b60_mach : q option;
               b60_baro_rate : z option; b60_ivv : z option }

val osat : ('a1 -> bool) -> 'a1 option -> bool

val onone : 'a1 option -> bool

val is_bds_6_0 : n list -> bds60 option res

val temperature_4_4 : n list -> q option res

val wind_speed : n list -> n option res

val wind_direction : n list -> n option res

val wind_4_4 : n list -> (n * n) option res

val turbulence_4_4 : n list -> n option res

val humidity_4_4 : n list -> n option res

val pressure_4_4 : n list -> n option res

val temperature_4_5 : n list -> q option res

type meteo = { me_temp : q option; me_wind : (n * n) option;
               me_hum : n option; me_turb : n option; me_pres : n option }

val is_bds_4_4 : n list -> meteo option res

val is_bds_4_5 : n list -> q option res

type ('r, 't) setter = ('t -> 't) -> 'r -> 'r

val set : ('a1 -> 'a2) -> ('a1, 'a2) setter -> ('a2 -> 'a2) -> 'a1 -> 'a1

type row = { icao : n; cap_ca : n; cap : capability; category : (n * n);
             reg : string; r_ais : n list option; r_altitude : n option;
             altitude_gnss_ : n option; altitude_source : n;
             selected_altitude : n option; baro_setting : n option;
             target_alt_source : n; r_squawk : n option; surv_status : 
             n; threat : n option; vrate : z option; vrate_source : n;
             cpr_lat0 : n; cpr_lat1 : n; cpr_lon0 : n; cpr_lon1 : n;
             cpr_t0 : z; cpr_t1 : z; cpr_s0 : bool; cpr_s1 : bool; lat : 
             q; lon : q; dist : (((q * q) * q) * q) option;
             grspeed : n option; true_airspeed : n option;
             indicated_airspeed : n option; mach : q option;
             ground_mov : q option; turn : n; track : n option;
             track_source : n; r_heading : n option; heading_source : 
             n; roll_angle : z option; track_angle_rate : z option;
             bds50_t : z option; temperature : q option;
             wind : (n * n) option; turbulence : n option;
             humidity : n option; pressure : n option; timestamp : z;
             position_t : z option; track_t : z option; heading_t : z option;
             last_tc : n; last_df : n; adsb_version : n option }

val sP : n

val row_new : z -> row

val country_go : ((n * n) * string) list -> n -> string

val icao_to_country : n -> string

val in_tc : n -> n -> n -> bool

val update_position : (q * q) option -> row -> n -> n -> row

val store_cpr : (q * q) option -> row -> n -> ((n * n) * n) -> row

val gnss_of : n -> z -> n

val update_from_bcast : row -> n list -> n -> row res

val update_cpr : (q * q) option -> row -> n list -> n -> row res

val update_from_ext_19 : row -> n list -> n -> row res

val update_from_ext : (q * q) option -> row -> n list -> n -> row res

val tas_char : n option -> n

val update_from_mode_s : row -> n list -> bool -> row res

val plane_update :
  (q * q) option -> z -> row -> n list -> n -> bool -> row res

type srt = { s_df : n option; s_icao : n option; s_squawk : n option;
             s_cap : n option; s_alt : n option }

val srt_new : srt

val srt_from_message : n list -> srt res

type ext = { e_df : n option; e_icao : n option; e_cap : n; e_mt : (n * n);
             e_ais : n list option; e_cpr : ((n * n) * n) option;
             e_gm : q option; e_grspeed : n option; e_track : n option;
             e_track_source : n option; e_heading : n option;
             e_altitude : n option; e_alt_delta : z option;
             e_alt_gnss : n option; e_vrate : z option; e_ss : n option;
             e_version : n option }

val ext_new : ext

val ext_from_message : n list -> ext res

val mds_from_message : n list -> (n option * n option) res

type downlink =
| DSrt of srt
| DExt of ext
| DMds of n option * n option

val df_from_message : n list -> downlink option res

val amend_cpr : (q * q) option -> row -> ext -> row

val ochar : n option -> n

val amend_from_ext_19 : row -> ext -> row

val update_from_ext_dl : (q * q) option -> row -> ext -> row

val update_from_srt_dl : row -> srt -> row

val dl_df : downlink -> n option

val update_from_downlink : (q * q) option -> z -> row -> downlink -> row

val row_from_downlink : (q * q) option -> z -> downlink -> n -> row

val row_from_message :
  (q * q) option -> z -> n list -> n -> n -> bool -> row res

val cont : n -> bool

val inr : n -> n -> n -> bool

val valid_utf8 : n list -> bool

val split_lf : n list -> n list -> n list list

val strip_cr : n list -> n list

val text_lines : n list -> n list option list

type opts = { use_update : bool; relaxed : bool; filter_df : n list option;
              count_df : bool; display_info : n list; order_by : n list list;
              update_s : z; delete_after : z; observer : (q * q) option }

type table = (n * row) list

val lookup : table -> n -> row option

val upsert : table -> n -> row -> table

val update_aircraft :
  opts -> z -> table -> downlink -> n list -> n -> n -> table res

type counters = { df_count : (n * z) list; cleanup_count : n; refresh_ts : z }

val bump : (n * z) list -> n -> (n * z) list

val counters_new : z -> z -> counters

val cleanup : table -> counters -> z -> z -> table * counters

val quiet : opts -> bool

type state = { tbl : table; cnt : counters }

type line_outcome =
| Skipped
| Applied of n * n

val step_line :
  opts -> z -> state -> n list -> ((state * bool) * line_outcome) res

val step :
  opts -> z -> state -> n list option -> ((state * bool) * line_outcome) res

val run_lines : opts -> z -> state -> n list option list -> state res

val read_lines : opts -> z -> table -> n list -> table res

val insert_by : ('a1 -> z) -> 'a1 -> 'a1 list -> 'a1 list

val stable_sort : ('a1 -> z) -> 'a1 list -> 'a1 list

val qtrunc : q -> z

val okey : n option -> z

type sort_action =
| SortBy of (row -> z) * bool
| NoSort

val sort_action_of : (row -> z) -> n -> sort_action

val apply_sort : (row -> z) -> (n * row) list -> n -> (n * row) list

val print_order : (row -> z) -> n list list -> table -> (n * row) list

type bytes = n list

val str : string -> bytes

val dec_go : nat -> n -> bytes -> bytes

val dec : n -> bytes

val decz : z -> bytes

val hexdigit : n -> n

val hex_go : nat -> n -> bytes -> bytes

val hex6 : n -> bytes

val qstr : q -> bytes

val oN : n option -> bytes

val oZ : z option -> bytes

val oQ : q option -> bytes

val bit : bool -> bytes

val age : z -> z -> bytes

val oage : z -> z option -> bytes

val kv : string -> bytes -> bytes

val dump_row : z -> row -> bytes

val insert_sorted : (n * row) -> table -> table

val sort_table : table -> table

val join : bytes -> bytes list -> bytes

val dump_table : z -> table -> bytes

val split_on : n -> bytes -> bytes -> bytes list

val split : n -> bytes -> bytes list

val hexv : n -> n

val unhex : bytes -> bytes

val parse_dec : bytes -> n

val parse_z : bytes -> z

val is_digit : n -> bool

val parse_q : bytes -> q option

val is_ws : n -> bool

val parse_observer : bytes -> (q * q) option

val opts_default : opts

val parse_opt : opts -> bytes -> opts

val parse_opts : bytes -> opts

val seg_bytes : bytes -> bytes

val run_segs : opts -> table -> bytes list -> bytes list -> bool * bytes list

val run_h : opts -> bytes -> bytes * bytes

val run_g : bytes -> bytes * bytes

val ounwrap : n option -> n

val dump_compact : row -> bytes

val run_m_go :
  opts -> bool -> bool -> row option -> bytes list -> bytes list ->
  bool * bytes list

val run_m : opts -> bytes -> bytes * bytes

val run_k_go : nat -> n -> n -> bytes list -> bytes list

val run_k : bytes -> bytes * bytes

val run_case : bytes -> bytes

val spaces : nat -> bytes

val pad_left : nat -> bytes -> bytes

val pad_right : nat -> bytes -> bytes

val zero_pad : nat -> bytes -> bytes

val round_half_even : q -> z

val fmt_fixed : nat -> q -> bytes

val has_flag : opts -> n -> bool

val fl_weather : opts -> bool

val fl_angles : opts -> bool

val fl_speed : opts -> bool

val fl_altitude : opts -> bool

val fl_extra : opts -> bool

val group_on : opts -> string -> bool

val header_line : opts -> bytes

val separator_line : opts -> bytes

val cell_oN : nat -> n option -> bytes

val cell_oZ : nat -> z option -> bytes

val age10 : z -> z option -> bytes

val render_row : opts -> z -> (row -> bytes) -> row -> bytes

val counter_line : counters -> bytes

val render_frame :
  opts -> z -> (row -> z) -> (row -> bytes) -> state -> bytes list

val run_cli_lines :
  opts -> z -> state -> n list option list -> bytes list list -> bytes list
  list res

val run_cli : opts -> z -> bytes -> bytes list list res

type conn_event =
| Refused
| Delivered of bytes * bool

val pause_after : conn_event -> n

val run_tcp_loop :
  opts -> z -> table -> conn_event list -> (table * n list) res

val run_c : opts -> bytes -> bytes * bytes

val num_of : bytes -> n -> n

val tcp_event : bytes -> conn_event

val run_t : opts -> bytes -> bytes * bytes

val dump_disp : opts -> z -> table -> bytes

val run_segs_d :
  opts -> table -> bytes list -> bytes list -> bool * bytes list

val run_d : opts -> bytes -> bytes * bytes

val run_case2 : bytes -> bytes
