(* Driver for the extracted model: reads case lines, prints observation lines.
   Only conversions between OCaml strings and Coq [list N] live here. *)

let rec pos_of_int (n : int) : Sqmodel.positive =
  if n = 1 then Sqmodel.XH
  else if n land 1 = 0 then Sqmodel.XO (pos_of_int (n lsr 1))
  else Sqmodel.XI (pos_of_int (n lsr 1))

let n_of_int (n : int) : Sqmodel.n = if n = 0 then Sqmodel.N0 else Sqmodel.Npos (pos_of_int n)

let rec int_of_pos (p : Sqmodel.positive) : int =
  match p with Sqmodel.XH -> 1 | Sqmodel.XO q -> 2 * int_of_pos q | Sqmodel.XI q -> 2 * int_of_pos q + 1

let int_of_n (x : Sqmodel.n) : int = match x with Sqmodel.N0 -> 0 | Sqmodel.Npos p -> int_of_pos p

let tbl = Array.init 256 n_of_int

let bytes_of_string (s : string) : Sqmodel.n list =
  let r = ref [] in
  for i = String.length s - 1 downto 0 do
    r := tbl.(Char.code s.[i]) :: !r
  done;
  !r

let string_of_bytes (l : Sqmodel.n list) : string =
  let b = Buffer.create 1024 in
  List.iter (fun x ->
      let c = int_of_n x in
      if c < 128 then Buffer.add_char b (Char.chr c)
      else if c < 0x800 then begin
        Buffer.add_char b (Char.chr (0xC0 lor (c lsr 6)));
        Buffer.add_char b (Char.chr (0x80 lor (c land 0x3F))) end
      else if c < 0x10000 then begin
        Buffer.add_char b (Char.chr (0xE0 lor (c lsr 12)));
        Buffer.add_char b (Char.chr (0x80 lor ((c lsr 6) land 0x3F)));
        Buffer.add_char b (Char.chr (0x80 lor (c land 0x3F))) end
      else begin
        Buffer.add_char b (Char.chr (0xF0 lor (c lsr 18)));
        Buffer.add_char b (Char.chr (0x80 lor ((c lsr 12) land 0x3F)));
        Buffer.add_char b (Char.chr (0x80 lor ((c lsr 6) land 0x3F)));
        Buffer.add_char b (Char.chr (0x80 lor (c land 0x3F))) end) l;
  Buffer.contents b

let () =
  let ic = if Array.length Sys.argv > 1 then open_in_bin Sys.argv.(1) else stdin in
  let oc = if Array.length Sys.argv > 2 then open_out_bin Sys.argv.(2) else stdout in
  (try
     while true do
       let line = input_line ic in
       if String.length line > 0 && line.[0] <> '%' then begin
         let out = Sqmodel.run_case2 (bytes_of_string line) in
         if out <> [] then begin
           output_string oc (string_of_bytes out);
           output_char oc '\n'
         end
       end
     done
   with End_of_file -> ());
  close_out oc
