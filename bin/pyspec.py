"""Independent (third) reading of the property texts, used only as ORACLE on implementation
output: it turns a broken proof/correspondence into a concrete failing input.  Written from
the Mode S documents and the property statements, not from /repo and not from the Coq model."""
from sqlib import crc24, getbits

HEX = {ord(c): int(c, 16) for c in "0123456789abcdefABCDEF"}


def utf8_ok(b: bytes) -> bool:
    try:
        b.decode("utf-8")
        return True
    except UnicodeDecodeError:
        return False


def file_lines(content: bytes):
    """BufRead::lines: split at LF, last chunk kept only if non-empty"""
    parts = content.split(b"\n")
    if parts and parts[-1] == b"":
        parts = parts[:-1]
    return parts


def frame_of_line(line: bytes):
    """-> (df, icao, value, nbits) for an accepted line with non-zero address, 'zero' for an accepted
    frame whose address is zero, or None"""
    if not utf8_ok(line):
        return None
    ds = [HEX[c] for c in line if c in HEX]
    n = len(ds)
    if n in (26, 40):
        ds = ds[12:]
        n -= 12
    if n not in (14, 28):
        return None
    v = 0
    for d in ds:
        v = (v << 4) | d
    nbits = n * 4
    df = v >> (nbits - 5)
    if (df < 16) != (nbits == 56):
        return None
    rem = crc24(v >> 24, nbits - 24) ^ (v & 0xFFFFFF)
    if df in (17, 18) and rem != 0:
        return None
    if df == 11 and (rem & 0xFFFF80) != 0:
        return None
    if df in (0, 4, 5, 16, 20, 21):
        icao = rem
    else:
        icao = getbits(v, nbits, 9, 32)
    if icao == 0:
        return "zero"
    return (df, icao, v, nbits)


def unhex_line(h: str) -> bytes:
    return b"" if h == "." else bytes.fromhex(h)


def case_segments(parts):
    """H case -> list of (t_ms, [raw line bytes...])"""
    segs = []
    for s in parts[3].split(";"):
        if not s:
            continue
        t, rest = s.split(":", 1)
        if rest.startswith("!"):
            content = bytes.fromhex(rest[1:])
        else:
            content = b"".join((b"\n" if l == "." else unhex_line(l) + b"\n") for l in rest.split(",") if l != "")
        segs.append((int(t), file_lines(content)))
    return segs


def case_opts(parts):
    d = {}
    for kv in parts[2].split(","):
        if "=" in kv:
            k, v = kv.split("=", 1)
            d[k] = v
    return d


def passes_filter(opts, df):
    if "f" not in opts:
        return True
    return df in [int(x) for x in opts["f"].split("+")]


def id13_squawk(f13: int) -> int:
    """13-bit ID field C1 A1 C2 A2 C4 A4 X B1 D1 B2 D2 B4 D4 (MSB first) -> decimal-coded octal ABCD"""
    b = [(f13 >> (12 - i)) & 1 for i in range(13)]
    C1, A1, C2, A2, C4, A4, _X, B1, D1, B2, D2, B4, D4 = b
    return (4 * A4 + 2 * A2 + A1) * 1000 + (4 * B4 + 2 * B2 + B1) * 100 + (4 * C4 + 2 * C2 + C1) * 10 + (4 * D4 + 2 * D2 + D1)


def gillham_alt(c1, a1, c2, a2, c4, a4, b1, b2, d2, b4, d4, d1=0):
    """Mode C (Gillham) altitude in feet or None for an illegal code."""
    def gray(bits):
        v = 0
        acc = 0
        for b in bits:
            acc ^= b
            v = (v << 1) | acc
        return v
    f500 = gray([d2, d4, a1, a2, a4, b1, b2, b4])
    c = gray([c1, c2, c4])
    if c in (0, 5, 6):
        return None
    if c == 7:
        c = 5
    if f500 & 1:
        c = 6 - c
    alt = 500 * f500 + 100 * c - 1300
    return alt if alt >= 0 else None


def ac13_altitude(ac: int):
    """13-bit AC field -> ('metric', None) | ('none', None) | ('ft', value)"""
    b = [(ac >> (12 - i)) & 1 for i in range(13)]
    C1, A1, C2, A2, C4, A4, M, B1, Q, B2, D2, B4, D4 = b
    if M:
        return ("metric", None)
    if ac == 0:
        return ("none", None)
    if Q:
        n = 0
        for x in (C1, A1, C2, A2, C4, A4, B1, B2, D2, B4, D4):
            n = (n << 1) | x
        v = 25 * n - 1000
        return ("ft", v) if v >= 0 else ("none", None)
    a = gillham_alt(C1, A1, C2, A2, C4, A4, B1, B2, D2, B4, D4)
    return ("ft", a) if a is not None else ("none", None)


def ac12_altitude(ac: int):
    """12-bit AC (no M bit): C1 A1 C2 A2 C4 A4 B1 Q B2 D2 B4 D4"""
    hi = ac >> 6
    lo = ac & 0x3F
    return ac13_altitude((hi << 7) | lo)


def rows_of(obs_seg):
    """observation segment string -> {icao(int): {field: token}}"""
    import sqcmp
    d = {}
    for r in obs_seg.split("|"):
        if r:
            row = sqcmp.parse_row(r)
            d[int(row["key"], 16)] = row
    return d
