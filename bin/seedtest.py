#!/usr/bin/env python3
"""seedtest.py <Cnn> <worktree> <N> [other checks...]  -- confirm a sub-agent's seeded change and run the checks against it.
 1. in the scratch worktree: apply mutation-N.patch, cargo test (must pass), demo (must fail); revert, demo (must pass)
 2. copy patch/demo/notes to /verif/seeded/<Cnn>-<N>/
 3. apply the patch to /repo, run `bin/vcheck <check> quick` for the property (and extra checks), undo
 4. write meta.json"""
import json, os, shutil, subprocess, sys, time

prop, wt, n = sys.argv[1], sys.argv[2], sys.argv[3]
extra = sys.argv[4:]
VERIF = "/verif"
tag = "r2-" if "mut2" in wt else ("r3-" if "mut3" in wt else ("r4-" if "mut4" in wt else ("r5-" if "mut5" in wt else ("r6-" if "mut6" in wt else ("r7-" if "mut7" in wt else "")))))
dst = os.path.join(VERIF, "seeded", "%s-%s%s" % (prop, tag, n))
patch = os.path.join(wt, "mutation-%s.patch" % n)
demo = os.path.join(wt, "demo-%s" % n)


def sh(cmd, cwd=None, timeout=1800):
    p = subprocess.run(cmd, shell=True, cwd=cwd, stdout=subprocess.PIPE, stderr=subprocess.STDOUT, text=True, timeout=timeout)
    return p.returncode, p.stdout


def run_demo():
    if os.path.exists(os.path.join(demo, "demo.rs")):
        os.makedirs(os.path.join(wt, "tests"), exist_ok=True)
        shutil.copy(os.path.join(demo, "demo.rs"), os.path.join(wt, "tests", "demo.rs"))
        rc, out = sh("cargo test --offline --test demo 2>&1 | tail -15", cwd=wt)
        ok = "test result: ok" in out
        shutil.rmtree(os.path.join(wt, "tests"), ignore_errors=True)
        return ok, out[-600:]
    for f in sorted(os.listdir(demo)):
        if f.endswith(".sh"):
            rc, out = sh("cargo build --offline 2>&1 | tail -1; bash %s" % os.path.join(demo, f), cwd=wt)
            return rc == 0, out[-600:]
    return None, "no runnable demo found"


meta = {"property": prop, "n": n, "source": "sub-agent in scratch worktree %s (given only the property record)" % wt}
sh("git checkout -- . && git clean -fdq tests", cwd=wt)
rc, out = sh("git apply %s" % patch, cwd=wt)
assert rc == 0, out
rc, out = sh("cargo test --offline 2>&1 | grep -E 'test result|FAILED|error' | head", cwd=wt)
meta["suite_with_change"] = out.strip().splitlines()
suite_ok = "66 passed" in out and "FAILED" not in out
ok_with, o1 = run_demo()
sh("git checkout -- .", cwd=wt)
ok_without, o2 = run_demo()
meta["demo_fails_with_change"] = (ok_with is False)
meta["demo_passes_without_change"] = (ok_without is True)
meta["suite_green_with_change"] = suite_ok
confirmed = suite_ok and ok_with is False and ok_without is True
meta["confirmed"] = confirmed
print("suite_ok", suite_ok, "demo with change passes:", ok_with, "without:", ok_without)
if not confirmed:
    print(o1, "\n----\n", o2)
os.makedirs(dst, exist_ok=True)
shutil.copy(patch, os.path.join(dst, "patch.diff"))
if os.path.isdir(os.path.join(dst, "demo")):
    shutil.rmtree(os.path.join(dst, "demo"))
shutil.copytree(demo, os.path.join(dst, "demo"))
notes = os.path.join(wt, "notes-%s.md" % n)
if os.path.exists(notes):
    shutil.copy(notes, os.path.join(dst, "notes.md"))
    meta["needs"] = open(notes).read()[:1500]
# run the checks against it
results = {}
rc, out = sh("git -C /repo status --short")
assert out.strip() == "", "repo not clean: " + out
rc, out = sh("git -C /repo apply %s" % patch)
assert rc == 0, out
try:
    for chk in [prop] + extra:
        t0 = time.time()
        rc, out = sh("bin/vcheck %s quick 2>&1 | tail -12" % chk, cwd=VERIF)
        v = [l for l in out.splitlines() if l.startswith("VIOLATION")]
        crashed = ("Traceback" in out) or not any(("%s quick:" % chk) in l or l.startswith("VIOLATION") for l in out.splitlines())
        results[chk] = {"exit": "violation" if v else ("CHECK-CRASHED" if crashed else "pass"), "line": (v[0] if v else out.strip().splitlines()[-1])[:300],
                        "detail": [l[:300] for l in out.splitlines() if l.startswith(("ORACLE", "DIFF", "BROKEN"))][:4], "wall_s": round(time.time() - t0, 1)}
        print(chk, results[chk]["exit"], results[chk]["line"][:200])
finally:
    sh("git -C /repo checkout -- .")
    sh("python3 translate/gen_tables.py", cwd=VERIF)
    # evidence written while /repo carried the seeded change describes the changed tree: put the committed files back
    sh("git checkout -- evidence && rm -rf replays/*", cwd=VERIF)
meta["checks"] = results
meta["caught_by"] = [k for k, v in results.items() if v["exit"] == "violation"]
meta["ran"] = "bin/seedtest.py %s %s %s %s" % (prop, wt, n, " ".join(extra))
json.dump(meta, open(os.path.join(dst, "meta.json"), "w"), indent=1)
