#!/usr/bin/env python3
"""reftest.py <patch> [checks...]: apply a behaviour-preserving refactoring to /repo, run the quick checks, report which
alarmed (they should not), undo.  Used to test the machinery against false alarms."""
import json, os, subprocess, sys, time
patch = sys.argv[1]
checks = sys.argv[2:] or ["C%02d" % i for i in range(1, 20)]
VERIF = "/verif"


def sh(cmd, cwd=None, timeout=3600):
    p = subprocess.run(cmd, shell=True, cwd=cwd, stdout=subprocess.PIPE, stderr=subprocess.STDOUT, text=True, timeout=timeout)
    return p.returncode, p.stdout


rc, out = sh("git -C /repo apply %s" % patch)
assert rc == 0, out
res = {}
try:
    rc, out = sh("cd /repo && cargo test --offline 2>&1 | grep -E 'test result' | head -1")
    print("suite:", out.strip())
    for c in checks:
        t0 = time.time()
        rc, out = sh("VERIF_NO_COQCHK=1 bin/vcheck %s quick 2>&1 | tail -14" % c, cwd=VERIF)
        v = [l for l in out.splitlines() if l.startswith("VIOLATION")]
        crashed = "Traceback" in out
        res[c] = "ALARM " + v[0] if v else ("CRASH" if crashed else "ok")
        if res[c] != "ok":
            print(c, res[c])
            print("   ", "\n    ".join(l[:260] for l in out.splitlines() if l.startswith(("BROKEN", "DIFF", "ORACLE", "RUNERR")) or "rror" in l)[:1500])
finally:
    sh("git -C /repo checkout -- .")
    sh("python3 translate/gen_tables.py", cwd=VERIF)
    sh("git checkout -- evidence && rm -rf replays/*", cwd=VERIF)
print("RESULT", os.path.basename(os.path.dirname(patch)) + "/" + os.path.basename(patch), {k: v for k, v in res.items() if v != "ok"} or "all quiet")
