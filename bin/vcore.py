"""Core of the verification orchestrator: build (translator, Coq, extraction, harness), audit,
sharded execution of implementation and model, comparison, oracle search, evidence, replay."""
import uuid
import fcntl
import glob
import hashlib
import json
import os
import re
import shutil
import subprocess
import sys
import time
from concurrent.futures import ThreadPoolExecutor

VERIF = os.path.dirname(os.path.dirname(os.path.abspath(__file__)))
REPO = os.environ.get("SQ_REPO", "/repo")
BUILD = os.path.join(VERIF, ".build")
COQ = os.path.join(VERIF, "coq")
TMP = os.path.join(BUILD, "tmp")
TARGET = os.path.join(BUILD, "target")
NPROC = min(16, os.cpu_count() or 4)

sys.path.insert(0, os.path.join(VERIF, "bin"))
import sqcmp  # noqa: E402

ENV = dict(os.environ)
ENV.update({"CARGO_NET_OFFLINE": "true", "CARGO_TARGET_DIR": TARGET})

FORBIDDEN = re.compile(
    r"\b(Admitted|admit|Axiom|Axioms|Parameter|Parameters|Conjecture|Conjectures|Unset\s+Guard|bypass_check|"
    r"Admit\s+Obligations|type-in-type|impredicative-set|Unset\s+Universe\s+Checking|Unset\s+Positivity)\b")

ALLOWED_AXIOMS = {
    # standard-library axioms that the real-analysis files (Interval / Coquelicot / Reals) rely on
    "ClassicalDedekindReals.sig_forall_dec", "ClassicalDedekindReals.sig_not_dec",
    "Classical_Prop.classic", "FunctionalExtensionality.functional_extensionality_dep",
}


def log(*a):
    print(*a, flush=True)


def run(cmd, timeout, cwd=None, env=None, capture=True):
    t0 = time.time()
    try:
        p = subprocess.run(cmd, cwd=cwd, env=env or ENV, timeout=timeout, stdout=subprocess.PIPE if capture else None,
                           stderr=subprocess.STDOUT if capture else None, text=True, errors="replace")
        return p.returncode, p.stdout or "", time.time() - t0
    except subprocess.TimeoutExpired as e:
        out = e.stdout or ""
        if isinstance(out, bytes):
            out = out.decode("utf-8", "replace")
        return 124, out + "\n[timeout after %ds]" % timeout, time.time() - t0


class Lock:
    def __init__(self, name):
        os.makedirs(BUILD, exist_ok=True)
        self.path = os.path.join(BUILD, name + ".lock")

    def __enter__(self):
        self.f = open(self.path, "w")
        fcntl.flock(self.f, fcntl.LOCK_EX)
        return self

    def __exit__(self, *a):
        fcntl.flock(self.f, fcntl.LOCK_UN)
        self.f.close()


def sha(path):
    h = hashlib.sha256()
    with open(path, "rb") as f:
        h.update(f.read())
    return h.hexdigest()


# ------------------------------------------------------------------------------ build

class BuildResult:
    def __init__(self):
        self.translator_ok = True
        self.translator_log = ""
        self.coq_ok = True            # property target built
        self.coq_log = ""
        self.model_ok = True          # extracted model binary available and current
        self.harness_ok = True
        self.harness_log = ""
        self.failed_file = None


def coq_make(targets, timeout=1500):
    if not os.path.exists(os.path.join(COQ, "Makefile")) or \
            os.path.getmtime(os.path.join(COQ, "Makefile")) < os.path.getmtime(os.path.join(COQ, "_CoqProject")):
        run(["coq_makefile", "-f", "_CoqProject", "-o", "Makefile"], 60, cwd=COQ)
    return run(["make", "-j%d" % NPROC, "-k"] + targets, timeout, cwd=COQ)


def build(prop_targets, need_release=False, need_cli=False):
    """Regenerate Gen/, build the Coq targets + extraction, the OCaml model and the harness."""
    res = BuildResult()
    os.makedirs(TMP, exist_ok=True)
    with Lock("build"):
        # 1. translators
        rc, out, _ = run([sys.executable, os.path.join(VERIF, "translate", "gen_tables.py")], 60)
        res.translator_log = out
        if rc != 0:
            res.translator_ok = False
        run([sys.executable, os.path.join(VERIF, "translate", "gen_known.py")], 60)
        rc2, out2, _ = run([sys.executable, os.path.join(VERIF, "translate", "gen_cells.py")], 60) \
            if os.path.exists(os.path.join(VERIF, "translate", "gen_cells.py")) else (0, "", 0)
        res.translator_log += out2
        if rc2 != 0:
            res.translator_ok = False
        # 2. Coq: model + extraction first (no proofs in their cone), then the property files
        rc, out, dt = coq_make(["Extract/Extract.vo"])
        model_built = rc == 0
        if not model_built:
            res.coq_log += out[-4000:]
        rc, out, dt = coq_make(prop_targets)
        res.coq_log += out[-6000:]
        if rc != 0:
            res.coq_ok = False
            m = re.search(r'File "\./([^"]+)", line (\d+)', out)
            if m:
                res.failed_file = "%s:%s" % (m.group(1), m.group(2))
        # 3. OCaml model
        res.model_ok = model_built and build_ocaml()
        # 4. harness (+ CLI) against the current /repo tree
        hdir = os.path.join(VERIF, "harness")
        rc, out, _ = run(["cargo", "build", "--offline"], 1200, cwd=hdir)
        res.harness_log = out[-3000:]
        if rc != 0:
            res.harness_ok = False
        if need_release and res.harness_ok:
            rc, out, _ = run(["cargo", "build", "--offline", "--release"], 1200, cwd=hdir)
            if rc != 0:
                res.harness_ok = False
                res.harness_log += out[-3000:]
        if need_cli and res.harness_ok:
            for prof in (["--release"], []):
                rc, out, _ = run(["cargo", "build", "--offline", "--manifest-path", os.path.join(REPO, "Cargo.toml"),
                                  "--bin", "squitterator"] + prof, 1200, cwd=hdir)
                if rc != 0:
                    res.harness_ok = False
                    res.harness_log += out[-3000:]
    return res


def build_ocaml():
    odir = os.path.join(BUILD, "ocaml")
    os.makedirs(odir, exist_ok=True)
    srcs = [os.path.join(COQ, "sqmodel.ml"), os.path.join(COQ, "sqmodel.mli"), os.path.join(VERIF, "ocaml", "driver.ml")]
    if not all(os.path.exists(s) for s in srcs):
        return False
    stamp = os.path.join(odir, "stamp")
    h = "".join(sha(s) for s in srcs)
    if os.path.exists(stamp) and open(stamp).read() == h and os.path.exists(os.path.join(odir, "sqmodel")):
        return True
    for s in srcs:
        shutil.copy(s, odir)
    rc, out, _ = run(["ocamlfind", "ocamlopt", "-O3", "-w", "-a", "sqmodel.mli", "sqmodel.ml", "driver.ml", "-o", "sqmodel"],
                     300, cwd=odir)
    if rc != 0:
        log(out[-2000:])
        return False
    open(stamp, "w").write(h)
    return True


# ------------------------------------------------------------------------------ audit

def audit_sources():
    """grep the whole development for forbidden vernacular"""
    bad = []
    for p in glob.glob(os.path.join(COQ, "**", "*.v"), recursive=True):
        txt = open(p, encoding="utf-8", errors="replace").read()
        # strip comments (non-nested is enough: (* ... *))
        txt2 = re.sub(r"\(\*.*?\*\)", "", txt, flags=re.S)
        for m in FORBIDDEN.finditer(txt2):
            bad.append("%s: %s" % (os.path.relpath(p, COQ), m.group(0)))
        # Variable/Hypothesis outside a Section
        depth = 0
        for line in txt2.splitlines():
            s = line.strip()
            if re.match(r"Section\s+\w+", s):
                depth += 1
            elif re.match(r"End\s+\w+", s) and depth > 0:
                depth -= 1
            elif depth == 0 and re.match(r"(Variable|Variables|Hypothesis|Hypotheses|Context)\b", s):
                bad.append("%s: %s outside a section" % (os.path.relpath(p, COQ), s.split()[0]))
    return bad


def theorems_of(prop):
    """names of the theorems stated in Properties/<prop>.v"""
    p = os.path.join(COQ, "Properties", prop + ".v")
    txt = open(p).read()
    txt = re.sub(r"\(\*.*?\*\)", "", txt, flags=re.S)
    return re.findall(r"^\s*Theorem\s+(\w+)", txt, flags=re.M), len(re.findall(r"^\s*Check\s+\w+\s*:", txt, flags=re.M))


def audit_assumptions(prop):
    """re-run Print Assumptions for every theorem of the property; returns (ok, {thm: [axioms]}, log)"""
    thms, nchecks = theorems_of(prop)
    adir = os.path.join(BUILD, "audit")
    os.makedirs(adir, exist_ok=True)
    f = os.path.join(adir, "Audit_%s.v" % prop)
    with open(f, "w") as fh:
        fh.write("From SQ Require Import %s.\n" % prop)
        for t in thms:
            fh.write('Goal True. idtac "@@THM %s". exact I. Qed.\nPrint Assumptions %s.\n' % (t, t))
    rc, out, _ = run(["coqc", "-q", "-noglob", "-Q", COQ, "SQ", "-w", "none", f], 600, cwd=adir)
    res = {}
    cur = None
    for line in out.splitlines():
        m = re.match(r"@@THM (\w+)", line)
        if m:
            cur = m.group(1)
            res[cur] = []
            continue
        if cur is None:
            continue
        if "Closed under the global context" in line or line.startswith("Axioms:") or not line.strip():
            continue
        m = re.match(r"^([A-Za-z_][\w.']*)\s*(:|$)", line)
        if m and not line.startswith(" "):
            res[cur].append(m.group(1))
    ok = rc == 0 and len(res) == len(thms)
    bad = []
    for t, axs in res.items():
        for a in axs:
            if a in ALLOWED_AXIOMS or a.startswith("Uint63.") or a.startswith("PrimInt63.") \
                    or a.startswith("Coq.Numbers.Cyclic.Int63") or a.startswith("PrimFloat.") or a.startswith("FloatAxioms."):
                continue
            bad.append("%s depends on %s" % (t, a))
    if len(thms) != nchecks:
        bad.append("pinned statements (Check) %d != theorems %d" % (nchecks, len(thms)))
    return ok and not bad, res, bad, out[-2000:]


# ------------------------------------------------------------------------------ execution

def split_shards(cases, n):
    """cases: list of rendered lines.  Cases with an observer must not share a harness process with
    cases without one (the observer is process-global and cannot be unset)."""
    with_o = [c for c in cases if "O=" in c.split("\t")[2]]
    without = [c for c in cases if "O=" not in c.split("\t")[2]]
    shards = []
    for grp in (without, with_o):
        if not grp:
            continue
        k = max(1, min(n, len(grp) // 50 + 1))
        for i in range(k):
            s = grp[i::k]
            if s:
                shards.append(s)
    return shards


def run_sharded(cases, tag, profile="debug", want_model=True):
    """returns (impl: id -> (outcome, obs), model: id -> (outcome, obs)); C-kind cases go through the CLI"""
    ccases = [c for c in cases if c.split("\t")[1] in ("C", "T")]
    if ccases:
        rest = [c for c in cases if c.split("\t")[1] not in ("C", "T")]
        impl, model, errs = run_sharded_(rest, tag, profile, want_model) if rest else ({}, {}, [])
        impl.update(run_cli_cases([c for c in ccases if c.split("\t")[1] == "C"], tag, profile))
        tcases = [c for c in ccases if c.split("\t")[1] == "T"]
        if tcases:
            def safe(c):
                for attempt in range(2):
                    try:
                        return run_tcp_case(c.split("\t"), profile)
                    except OSError as e:
                        err = e
                return ("harness-error", str(err))
            with ThreadPoolExecutor(max_workers=8) as ex:
                for c, r in zip(tcases, ex.map(safe, tcases)):
                    impl[c.split("\t")[0]] = r
        if want_model:
            # ids ending in "!nomodel" are implementation-only cases (judged by the oracle alone): the model is given a stub
            mcases = [c for c in ccases if not c.split("\t")[0].endswith("!nomodel")]
            _, m2, e2 = run_sharded_(mcases, tag + "c", profile, True, want_impl=False)
            model.update(m2)
            for c in ccases:
                cid = c.split("\t")[0]
                if cid.endswith("!nomodel"):
                    model[cid] = ("ok", "")
            errs += e2
        return impl, model, errs
    return run_sharded_(cases, tag, profile, want_model)


def run_sharded_(cases, tag, profile="debug", want_model=True, want_impl=True):
    shards = split_shards(cases, NPROC)
    d = os.path.join(TMP, "%s-%d" % (tag, os.getpid()))
    os.makedirs(d, exist_ok=True)
    sqv = os.path.join(TARGET, profile, "sqv")
    sqm = os.path.join(BUILD, "ocaml", "sqmodel")
    jobs = []
    shard_ids = {}
    for i, s in enumerate(shards):
        cf = os.path.join(d, "c%d.txt" % i)
        with open(cf, "w") as f:
            f.write("\n".join(s) + "\n")
        if want_impl:
            jobs.append(("impl", [sqv, cf, os.path.join(d, "i%d.txt" % i), d], os.path.join(d, "i%d.txt" % i)))
            shard_ids[os.path.join(d, "i%d.txt" % i)] = [c.split("\t")[0] for c in s if c and not c.startswith("%")]
        if want_model:
            jobs.append(("model", [sqm, cf, os.path.join(d, "m%d.txt" % i)], os.path.join(d, "m%d.txt" % i)))

    def big_stack():
        import resource
        try:
            soft, hard = resource.getrlimit(resource.RLIMIT_STACK)
            resource.setrlimit(resource.RLIMIT_STACK, (hard, hard))
        except Exception:
            pass

    def work(j):
        kind, cmd, outp = j
        p = subprocess.run(cmd, stdout=subprocess.DEVNULL, stderr=subprocess.PIPE, timeout=900, preexec_fn=big_stack)
        return kind, outp, p.returncode, p.stderr.decode("utf-8", "replace")[-500:]

    impl, model = {}, {}
    errs = []
    with ThreadPoolExecutor(max_workers=NPROC) as ex:
        for kind, outp, rc, err in ex.map(work, jobs):
            if rc != 0:
                errs.append("%s rc=%d %s" % (kind, rc, err))
            if os.path.exists(outp):
                (impl if kind == "impl" else model).update(sqcmp.read_obs(outp))
            if kind == "impl" and rc != 0:
                # the harness process itself died (abort, stack overflow, ...): results are flushed case by case, so the first
                # case of the shard without a result is the one it died in
                for cid in shard_ids.get(outp, []):
                    if cid not in impl:
                        impl[cid] = ("crash", "the harness process ended (status %d) while running this case: %s" % (rc, err.strip()[-200:]))
                        break
    shutil.rmtree(d, ignore_errors=True)
    return impl, model, errs


CLEAR = b"\x1b[2J\x1b[H\x1b[3J"


_dlog_n = 0


def cli_env(opts_s):
    """environment of a CLI run: l=2 switches every log level on (arguments of log macros are then evaluated)"""
    e = dict(os.environ)
    e.pop("RUST_LOG", None)
    if "l=2" in opts_s.split(","):
        e["RUST_LOG"] = "trace"
    return e


def cli_args(opts_s, path):
    global _dlog_n
    upd = "-1"
    for kv in opts_s.split(","):
        if kv.startswith("u="):
            upd = kv[2:]
    a = ["-s", path, "--update=" + upd]
    have_o = False
    for kv in opts_s.split(","):
        if "=" not in kv:
            continue
        k, v = kv.split("=", 1)
        if k == "U" and v == "1":
            a.append("-U")
        elif k == "R" and v == "1":
            a.append("-R")
        elif k == "c" and v == "1":
            a.append("-c")
        elif k == "f":
            for x in v.split("+"):
                a += ["-f", x]
        elif k == "d":
            a.append("--delete-after=" + v)
        elif k == "i":
            for x in v.split("+"):
                a += ["-i", x]
        elif k == "o":
            for x in v.split("+"):
                a += ["-o", x]
        elif k == "M":
            for x in v.split("+"):
                a += ["-M", x]
        elif k == "O":
            val = bytes.fromhex(v).decode("utf-8", "replace")
            # a value with a leading '-' (southern latitude) has to be attached, or clap reads it as an option
            a += (["-O=" + val] if val.startswith("-") else ["-O", val])
            have_o = True
        elif k == "l" and v in ("1", "2"):
            # --error-log into a scratch file (l=2: with RUST_LOG=trace, see cli_env): logging must not change behaviour
            _dlog_n += 1
            os.makedirs(TMP, exist_ok=True)
            f = os.path.join(TMP, "dlog-%d-%s-e.txt" % (os.getpid(), uuid.uuid4().hex))
            a += ["-l", f]
        elif k == "D" and v == "1":
            # --downlink-log: a fresh file per run (the option has no effect on the table; the model ignores it)
            _dlog_n += 1
            os.makedirs(TMP, exist_ok=True)
            f = os.path.join(TMP, "dlog-%d-%s.txt" % (os.getpid(), uuid.uuid4().hex))
            if os.path.exists(f):
                os.unlink(f)
            a += ["-D", f]
    if not have_o:
        a += ["-O", "x"]
    if "-o" not in a:
        a += ["-o", "x"]
    if "-i" not in a:
        a += ["-i", "Q"]
    return a


def run_cli_cases(cases, tag, profile="debug", timeout=60):
    """C-kind cases through the built CLI.  returns id -> (outcome, obs) with obs = frames joined by \x1e,
    lines by \x1d (same layout the model prints)"""
    import pyspec
    exe = os.path.join(TARGET, profile, "squitterator")
    d = os.path.join(TMP, "%s-cli-%d" % (tag, os.getpid()))
    os.makedirs(d, exist_ok=True)

    def work(c):
        parts = c.split("\t")
        cid = parts[0]
        segs = pyspec.case_segments(parts)
        content = b"".join(l + b"\n" for l in segs[0][1]) if not parts[3].split(":", 1)[1].startswith("!") \
            else bytes.fromhex(parts[3].split(":", 1)[1][1:])
        path = os.path.join(d, "in-%s.txt" % cid.replace("/", "_"))
        with open(path, "wb") as f:
            f.write(content)
        try:
            cargs = cli_args(parts[2], path)
            p = subprocess.run([exe] + cargs, stdout=subprocess.PIPE, stderr=subprocess.PIPE, timeout=timeout, env=cli_env(parts[2]))
            for a in cargs:
                if os.path.basename(a).startswith("dlog-"):
                    try:
                        os.unlink(a)
                    except OSError:
                        pass
        except subprocess.TimeoutExpired:
            return cid, ("timeout", "")
        finally:
            pass
        os.remove(path)
        err = p.stderr.decode("utf-8", "replace")
        if p.returncode != 0 or "panicked" in err:
            return cid, ("panic" if (p.returncode in (101, -6, 134) or "panicked" in err) else "exit%d" % p.returncode, err[-300:])
        frames = p.stdout.split(CLEAR)[1:]   # [0] is what precedes the first clear
        frames = frames[1:] if frames else []   # drop the legend
        out = []
        for fr in frames:
            txt = fr.decode("utf-8", "replace")
            lines = txt.split("\n")
            if lines and lines[-1] == "":
                lines = lines[:-1]
            out.append("\x1d".join(lines))
        return cid, ("ok", "\x1e".join(out))

    res = {}
    with ThreadPoolExecutor(max_workers=NPROC) as ex:
        for cid, r in ex.map(work, cases):
            res[cid] = r
    shutil.rmtree(d, ignore_errors=True)
    return res


def free_port():
    import socket
    s = socket.socket()
    s.bind(("127.0.0.1", 0))
    p = s.getsockname()[1]
    s.close()
    return p


def run_tcp_case(parts, profile="debug"):
    """T-kind: scripted loopback peer.  Segment time field = event type:
       0 healthy (kept open), 1 frames then close, 2 frames + partial line then RST, 3 refuse, 4 junk bytes then close, 5 accept+close.
       returns (outcome, obs) with obs = 'keys=..;gaps=..;alive=..;conns=..' """
    import socket, struct, pyspec
    exe = os.path.join(TARGET, profile, "squitterator")
    port = free_port()
    events = []
    for s in parts[3].split(";"):
        if not s:
            continue
        t, rest = s.split(":", 1)
        if rest.startswith("!"):
            data = bytes.fromhex(rest[1:])
        else:
            data = b"".join((b"\n" if l == "." else bytes.fromhex(l) + b"\n") for l in rest.split(",") if l != "")
        events.append((int(t), data))
    args = cli_args(parts[2], "unused")
    args = [a for a in args if a not in ("-s", "unused")]
    srv = None

    def listen():
        last = None
        for attempt in range(20):
            ls = socket.socket()
            ls.setsockopt(socket.SOL_SOCKET, socket.SO_REUSEADDR, 1)
            try:
                ls.bind(("127.0.0.1", port))
                ls.listen(4)
                ls.settimeout(9.0)
                return ls
            except OSError as e:
                last = e
                ls.close()
                time.sleep(0.1)
        raise last

    first = events[0][0] if events else 0
    if first not in (3, 8, 12):
        srv = listen()
    proc = subprocess.Popen([exe, "-t", "127.0.0.1:%d" % port] + args, stdout=subprocess.PIPE, stderr=subprocess.PIPE, env=cli_env(parts[2]))
    # drain stdout/stderr while the session runs: the program prints its legend at every connection, and a full pipe would
    # block it (which would look like a decoder that stopped reconnecting)
    import threading
    bufs = {"out": bytearray(), "err": bytearray()}

    def drain(f, key):
        while True:
            b = f.read(65536)
            if not b:
                break
            bufs[key] += b
    threads = [threading.Thread(target=drain, args=(proc.stdout, "out"), daemon=True), threading.Thread(target=drain, args=(proc.stderr, "err"), daemon=True)]
    for th in threads:
        th.start()
    t_last = time.time()
    gaps, accepted, keep = [], 0, []
    outcome = "ok"
    try:
        for typ, data in events:
            if typ in (3, 8, 12):
                if srv is not None:
                    srv.close()
                    srv = None
                time.sleep({3: 1.2, 8: 162.0, 12: 6.5}[typ])   # the client's attempts are refused meanwhile (8: a long outage, 12: two attempts)
                srv = listen()
                t_ref = time.time()
                continue
            if srv is None:
                srv = listen()
            try:
                c, _ = srv.accept()
            except socket.timeout:
                outcome = "noconnect"
                break
            now = time.time()
            gaps.append(round(now - t_last, 2))
            accepted += 1
            if typ == 5:
                c.close()
            elif typ == 11:
                # a feeder that accepts and drops, thousands of times in a row (each a clean close: the loop reconnects at once)
                c.close()
                srv.settimeout(3.0)
                for _ in range(int(data.decode() or "3000") - 1):
                    try:
                        c2, _ = srv.accept()
                    except socket.timeout:
                        outcome = "noconnect"
                        break
                    accepted += 1
                    c2.close()
                srv.settimeout(9.0)
            elif typ in (1, 4):
                c.sendall(data)
                time.sleep(0.3)
                c.close()
            elif typ == 6:
                # healthy connection whose last line (the sentinel) arrives 5.3 s later: with --update 2 the
                # refresh triggered by it shows the table as it is after the first sweep of this connection
                lines = data.split(b"\n")
                c.sendall(b"\n".join(lines[:-2]) + b"\n")
                time.sleep(5.3)
                c.sendall(lines[-2] + b"\n")
                keep.append(c)
                time.sleep(0.6)
            elif typ == 9:
                # a line split by a pause: the bytes before '|' now, the rest 1.5 s later; then a clean close
                a, b = data.split(b"|", 1)
                c.sendall(a)
                time.sleep(1.5)
                c.sendall(b)
                time.sleep(0.3)
                c.close()
            elif typ in (2, 7):
                # complete lines first, then a partial line, then a reset; type 7: the connection has been up for more
                # than the 5 s retry pause when it is reset
                if typ == 7:
                    cut = data.rfind(b"\n") + 1
                    c.sendall(data[:cut])
                    time.sleep(5.6)
                    c.sendall(data[cut:])
                else:
                    c.sendall(data)
                time.sleep(0.4)
                c.setsockopt(socket.SOL_SOCKET, socket.SO_LINGER, struct.pack("ii", 1, 0))
                c.close()
            else:
                c.sendall(data)
                keep.append(c)
                time.sleep(0.6)
            t_last = time.time()
        alive = proc.poll() is None
    finally:
        time.sleep(0.2)
        proc.kill()
        proc.wait()
        for th in threads:
            th.join(2.0)
        out, err = bytes(bufs["out"]), bytes(bufs["err"])
        for c in keep:
            c.close()
        if srv is not None:
            srv.close()
    for a in args:
        if isinstance(a, str) and os.path.basename(a).startswith("dlog-") and os.path.exists(a):
            os.unlink(a)
    frames = out.split(CLEAR)
    keys = []
    if len(frames) > 2:
        lines = frames[-1].decode("utf-8", "replace").split("\n")
        seps = [i for i, l in enumerate(lines) if l.startswith("------")]
        if len(seps) >= 2:
            keys = [l[:6] for l in lines[seps[0] + 1:seps[1]]]
    if b"panicked" in err:
        outcome = "panic"
    return outcome, "keys=%s;gaps=%s;alive=%d;conns=%d" % (",".join(keys), ",".join(str(g) for g in gaps), 1 if alive else 0, accepted)


def case_index(cases):
    d = {}
    for c in cases:
        p = c.split("\t")
        d[p[0]] = p
    return d


# ------------------------------------------------------------------------------ known findings

def load_known():
    p = os.path.join(VERIF, "known_findings.json")
    if not os.path.exists(p):
        return []
    return json.load(open(p))


# ------------------------------------------------------------------------------ evidence / replay

def write_evidence(prop, tier, seed, coverage, assumptions, wall, violations):
    os.makedirs(os.path.join(VERIF, "evidence"), exist_ok=True)
    ev = {"property_id": prop, "tier": tier, "seed": seed, "level": "proof", "coverage": coverage,
          "assumptions": assumptions, "wall_s": round(wall, 2), "violations": violations}
    with open(os.path.join(VERIF, "evidence", prop + ".json"), "w") as f:
        json.dump(ev, f, indent=1)


def write_replay(prop, seed, n, payload):
    d = os.path.join(VERIF, "replays")
    os.makedirs(d, exist_ok=True)
    p = os.path.join(d, "%s-%d-%d.json" % (prop, seed, n))
    with open(p, "w") as f:
        json.dump(payload, f, indent=1)
    return p
