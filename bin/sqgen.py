"""Case generators.  Every random choice comes from one PRNG seeded by the caller, and every
case carries its index, so a disagreement replays exactly.

A case is a tuple (id, kind, opts, body) rendered by `render`.
"""
import random
from sqlib import *

ICAOS = [0x40621D, 0x4CA4A4, 0x3C56E7, 0xA8A87E, 0x151D83, 0x000001, 0xFFFFFF, 0x7C0000, 0x484000]


def render(case):
    return "\t".join(case)


def id13_from_squawk(a, b, c, d):
    """octal digits A B C D -> 13-bit identity field C1 A1 C2 A2 C4 A4 X B1 D1 B2 D2 B4 D4 (MSB first)"""
    bits = [c & 1, a & 1, (c >> 1) & 1, (a >> 1) & 1, (c >> 2) & 1, (a >> 2) & 1, 0,
            b & 1, d & 1, (b >> 1) & 1, (d >> 1) & 1, (b >> 2) & 1, (d >> 2) & 1]
    v = 0
    for x in bits:
        v = (v << 1) | x
    return v


def clmul(a, b):
    x = 0
    while b:
        if b & 1:
            x ^= a
        a <<= 1
        b >>= 1
    return x


def crc_zero_frame(r, df):
    """a frame of downlink format [df] whose data bits are a multiple of the generator 0x1FFF409, so that the CRC-24 of the
    data is 000000: for DF11/17/18 the valid parity field is all zeros, for the address/parity formats the AP field IS the
    address.  Returns (hex, nbits, address)"""
    nb = 56 if df < 16 else 112
    nd = nb - 24
    for _ in range(100000):
        q = r.getrandbits(r.randint(1, nd - 25)) | 1
        pq = clmul(0x1FFF409, q)
        L = pq.bit_length()
        lz = 5 - df.bit_length() if df else r.randint(5, 8)      # leading zero bits of the DF pattern
        if L + lz > nd:
            continue
        data = pq << (nd - lz - L)
        if data >> (nd - 5) != df:
            continue
        icao = (data >> (nd - 32)) & 0xFFFFFF if df in (11, 17, 18) else r.getrandbits(24) | 1
        if icao == 0:
            continue
        frame = (data << 24) | (0 if df in (11, 17, 18) else icao)
        return "%0*X" % (nb // 4, frame), nb, icao
    raise RuntimeError("no multiple found")


def opts_str(d):
    if not d:
        return "-"
    return ",".join("%s=%s" % (k, v) for k, v in d.items())


def D(cid, opts, segs):
    """kind D: a history like kind H whose rows are observed as rendered table lines (the -i letters select the groups)"""
    return (cid, "D", opts_str(opts), ";".join(segs))


def seg(t, lines):
    return "%d:%s" % (t, ",".join(enc_line(x) for x in lines))


def blob(t, data: bytes):
    return "%d:!%s" % (t, data.hex().upper())


def H(cid, opts, segs):
    return (cid, "H", opts_str(opts), ";".join(segs))


def G(cid, line):
    return (cid, "G", "-", enc_line(line))


def M(cid, opts, path, frames):
    return (cid, "M", opts_str(opts), path + ":" + ",".join(frames))


# ---------------------------------------------------------------- Comm-B encoders

def mb_bits(fields):
    """fields: list of (start_bit(1..56), width, value) -> 56-bit int"""
    v = 0
    for sb, w, x in fields:
        v |= (x & ((1 << w) - 1)) << (56 - (sb + w - 1))
    return v


def bds17(caps_bits):
    """caps_bits: iterable of MB bit numbers (1..24) set; bit 7 (BDS 2,0) added"""
    v = 0
    for b in set(caps_bits) | {7}:
        v |= 1 << (56 - b)
    return v


def bds20(chars):
    return mb_bits([(1, 8, 0x20)] + [(9 + 6 * i, 6, c) for i, c in enumerate(chars)])


def bds30(rest48):
    return mb_bits([(1, 8, 0x30), (9, 48, rest48)])


def bds40(mcp=None, fms=None, baro=None, res=0, res2=0, src=None, modes=None, st=(1, 1, 1)):
    f = []
    f += [(1, 1, st[0]), (2, 12, mcp or 0)]
    f += [(14, 1, st[1]), (15, 12, fms or 0)]
    f += [(27, 1, st[2]), (28, 12, baro or 0)]
    f += [(40, 8, res), (52, 2, res2)]
    if modes is not None:
        f += [(48, 1, 1), (49, 3, modes)]
    if src is not None:
        f += [(54, 1, 1), (55, 2, src)]
    return mb_bits(f)


def bds50(roll, trk, gs, tar, tas, st=(1, 1, 1, 1, 1)):
    """roll/tar: (sign, 9-bit); trk: (sign, 10-bit); gs/tas: 10-bit"""
    return mb_bits([(1, 1, st[0]), (2, 1, roll[0]), (3, 9, roll[1]),
                    (12, 1, st[1]), (13, 1, trk[0]), (14, 10, trk[1]),
                    (24, 1, st[2]), (25, 10, gs),
                    (35, 1, st[3]), (36, 1, tar[0]), (37, 9, tar[1]),
                    (46, 1, st[4]), (47, 10, tas)])


def bds60(hdg, ias, mach, brate, ivv, st=(1, 1, 1, 1, 1)):
    """hdg: (sign, 10-bit); ias, mach: 10-bit; brate/ivv: (sign, 9-bit)"""
    return mb_bits([(1, 1, st[0]), (2, 1, hdg[0]), (3, 10, hdg[1]),
                    (13, 1, st[1]), (14, 10, ias),
                    (24, 1, st[2]), (25, 10, mach),
                    (35, 1, st[3]), (36, 1, brate[0]), (37, 9, brate[1]),
                    (46, 1, st[4]), (47, 1, ivv[0]), (48, 9, ivv[1])])


def bds44(fom, wspd, wdir, tsign, temp, pres, turb, hum, st=(1, 1, 1, 1)):
    return mb_bits([(1, 4, fom), (5, 1, st[0]), (6, 9, wspd), (15, 9, wdir), (24, 1, tsign), (25, 10, temp),
                    (35, 1, st[1]), (36, 11, pres), (47, 1, st[2]), (48, 2, turb), (50, 1, st[3]), (51, 6, hum)])


def bds45(rng):
    # every status set and every value non-zero except the reserved tail
    f = [(1, 1, 1), (2, 2, rng.randint(1, 3)), (4, 1, 1), (5, 2, rng.randint(1, 3)), (7, 1, 1), (8, 2, rng.randint(1, 3)),
         (10, 1, 1), (11, 2, rng.randint(1, 3)), (13, 1, 1), (14, 2, rng.randint(1, 3)),
         (16, 1, 1), (17, 1, rng.randint(0, 1)), (18, 9, rng.randint(1, 200)),
         (27, 1, 1), (28, 1, 1), (39, 1, 1), (40, 12, rng.randint(1, 4095))]
    return mb_bits(f)


class Gen:
    def __init__(self, seed):
        self.r = random.Random(seed)

    # -------- single frames (hex strings)
    def icao(self):
        r = self.r
        return r.choice(ICAOS) if r.random() < 0.8 else r.getrandbits(24)

    def f_df11(self, icao=None, ca=None, ic=0):
        r = self.r
        return hx(df11(self.icao() if icao is None else icao, r.randint(0, 7) if ca is None else ca, ic), 56)

    def f_short(self, df, icao=None, f27=None):
        r = self.r
        return hx(short_ap(df, self.icao() if icao is None else icao, r.getrandbits(27) if f27 is None else f27), 56)

    def f_long(self, df, icao=None, f27=None, mb=None):
        r = self.r
        return hx(long_ap(df, self.icao() if icao is None else icao, r.getrandbits(27) if f27 is None else f27,
                          r.getrandbits(56) if mb is None else mb), 112)

    def f_df17(self, icao=None, me=None, ca=None, df=17):
        r = self.r
        return hx(df17(self.icao() if icao is None else icao, r.getrandbits(56) if me is None else me,
                       r.randint(0, 7) if ca is None else ca, df), 112)

    def me_random_tc(self, tc=None):
        r = self.r
        tc = r.randint(0, 31) if tc is None else tc
        return (tc << 51) | r.getrandbits(51)

    def me_ident(self, tc=None, ca=None, text=None):
        r = self.r
        chars = [r.randint(0, 63) for _ in range(8)] if text is None else [ia5_code(c) for c in text.ljust(8)]
        return me_ident(r.randint(1, 4) if tc is None else tc, r.randint(0, 7) if ca is None else ca, chars)

    def me_velocity(self, st=None):
        r = self.r
        st = r.choice([1, 1, 1, 2, 3, 4, 0, 5]) if st is None else st

        def comp():
            return r.choice([0, 1, 2, 1023, r.randint(0, 1023), r.randint(0, 300)])
        vr = r.choice([0, 1, 2, 511, r.randint(0, 511)])
        return me_velocity(st, r.randint(0, 1), comp(), r.randint(0, 1), comp(), r.randint(0, 1), r.randint(0, 1), vr,
                           r.randint(0, 1), r.choice([0, 1, 127, r.randint(0, 127)]),
                           r.randint(0, 1), r.randint(0, 1), r.randint(0, 7))

    def me_airpos(self, lat=None, lon=None, odd=None, tc=None, alt=None):
        r = self.r
        lat = r.uniform(-89, 89) if lat is None else lat
        lon = r.uniform(-180, 180) if lon is None else lon
        odd = r.randint(0, 1) if odd is None else odd
        yz, xz = cpr_encode(lat, lon, odd)
        ac = r.getrandbits(12) if alt is None else ac12_from_alt25(alt)
        return me_airborne_pos(r.randint(9, 18) if tc is None else tc, ac, odd, yz, xz, r.randint(0, 3), r.randint(0, 1), r.randint(0, 1))

    def me_surfpos(self, lat=None, lon=None, odd=None, tc=None):
        r = self.r
        lat = r.uniform(-89, 89) if lat is None else lat
        lon = r.uniform(-180, 180) if lon is None else lon
        odd = r.randint(0, 1) if odd is None else odd
        yz, xz = cpr_encode(lat, lon, odd)  # zone sizes differ for surface; any 17-bit value is a legal field
        return me_surface_pos(r.randint(5, 8) if tc is None else tc, r.randint(0, 127), r.randint(0, 1), r.randint(0, 127), odd, yz, xz)

    def mb_any(self):
        r = self.r
        k = r.randint(0, 11)
        if k == 0:
            return bds17([b for b in (9, 13, 16, 24, 1, 2, 8) if r.random() < 0.5])
        if k == 1:
            return bds20([r.randint(0, 63) for _ in range(8)])
        if k == 2:
            return bds30(r.getrandbits(48))
        if k == 3:
            return bds40(r.randint(0, 4095), r.randint(0, 4095), r.randint(0, 4095), r.choice([0, 0, 0, r.getrandbits(8)]),
                         r.choice([0, 0, 0, r.getrandbits(2)]), r.choice([None, 0, 1, 2, 3]), r.choice([None, 0, 5]),
                         (r.choice([1, 1, 1, 0]), r.choice([1, 1, 1, 0]), r.choice([1, 1, 1, 0])))
        if k == 4:
            return bds50((r.randint(0, 1), r.randint(0, 511)), (r.randint(0, 1), r.randint(0, 1023)), r.randint(0, 400),
                         (r.randint(0, 1), r.randint(0, 511)), r.randint(0, 400),
                         tuple(r.choice([1, 1, 1, 1, 0]) for _ in range(5)))
        if k == 5:
            # plausible 5,0
            gs = r.randint(1, 300)
            tas = max(1, min(250, gs + r.randint(-60, 60)))
            roll = r.choice([(0, r.randint(1, 280)), (1, r.randint(230, 511))])
            return bds50(roll, (r.randint(0, 1), r.randint(1, 1023)), gs, (r.randint(0, 1), r.randint(1, 511)), tas)
        if k == 6:
            return bds60((r.randint(0, 1), r.randint(0, 1023)), r.randint(0, 1023), r.randint(0, 400),
                         (r.randint(0, 1), r.randint(0, 511)), (r.randint(0, 1), r.randint(0, 511)),
                         tuple(r.choice([1, 1, 1, 1, 0]) for _ in range(5)))
        if k == 7:
            # plausible 6,0
            br = r.choice([(0, r.randint(1, 187)), (1, r.randint(325, 511))])
            iv = r.choice([(0, r.randint(1, 187)), (1, r.randint(325, 511))])
            return bds60((r.randint(0, 1), r.randint(1, 1023)), r.randint(1, 500), r.randint(1, 250), br, iv)
        if k == 8:
            return bds44(r.randint(0, 15), r.randint(0, 511), r.randint(0, 511), r.randint(0, 1), r.randint(0, 1023),
                         r.randint(0, 2047), r.randint(0, 3), r.randint(0, 63),
                         tuple(r.choice([1, 1, 1, 0]) for _ in range(4)))
        if k == 9:
            return bds45(r)
        return r.getrandbits(56)

    def any_frame(self, icao=None):
        """one well-formed frame of any supported format"""
        r = self.r
        k = r.randint(0, 19)
        if k == 0:
            return self.f_df11(icao)
        if k == 1:
            return self.f_short(4, icao)
        if k == 2:
            return self.f_short(4, icao, (r.getrandbits(14) << 13) | ac13_from_alt25(r.randint(0, 2047)))
        if k == 3:
            return self.f_short(5, icao)
        if k == 4:
            return self.f_short(0, icao)
        if k == 5:
            return self.f_long(16, icao)
        if k in (6, 7):
            return self.f_long(r.choice([20, 21]), icao, None, self.mb_any())
        if k == 8:
            return self.f_df17(icao, self.me_ident())
        if k in (9, 10):
            return self.f_df17(icao, self.me_airpos())
        if k == 11:
            return self.f_df17(icao, self.me_surfpos())
        if k in (12, 13):
            return self.f_df17(icao, self.me_velocity())
        if k == 14:
            return self.f_df17(icao, self.me_random_tc())
        if k == 15:
            return self.f_df17(icao, self.me_random_tc(r.choice([20, 21, 22, 31, 28, 29, 0])))
        if k == 16:
            return self.f_df17(icao, self.me_random_tc(), df=18)
        if k == 17:
            df = r.choice([1, 2, 3, 6, 7, 8, 9, 10, 12, 13, 14, 15])
            return "%014X" % ((df << 51) | r.getrandbits(51))
        if k == 18:
            df = r.choice([19, 22, 23, 24, 25, 26, 27, 28, 29, 30, 31])
            return "%028X" % ((df << 107) | r.getrandbits(107))
        return self.f_df17(icao, self.me_airpos(alt=r.randint(0, 2047)))

    def text_line(self, offset, ch, tail=None):
        """a comment-like line of valid UTF-8 whose multi-byte character [ch] starts at byte [offset]; never a frame"""
        r = self.r
        fill = "ghijklmnopqrstuvwxyz .,:-_#"
        body = "".join(r.choice(fill) for _ in range(offset)) + ch
        body += "".join(r.choice(fill) for _ in range(r.randint(0, 90) if tail is None else tail))
        return body.encode("utf-8")

    def odd_frame(self, df, icao):
        """a frame of ANY downlink format 0..31 that the reader files under [icao]: the supported formats as usual, every
        other format with the address in bits 9-32 (no parity check applies to them) and the length its DF calls for"""
        r = self.r
        if df in (0, 4, 5):
            return self.f_short(df, icao)
        if df == 11:
            return self.f_df11(icao)
        if df in (16, 20, 21):
            return self.f_long(df, icao)
        if df in (17, 18):
            return self.f_df17(icao, self.me_random_tc(), df=df)
        nb = 56 if df < 16 else 112
        v = (df << (nb - 5)) | (r.getrandbits(3) << (nb - 8)) | (icao << (nb - 32)) | r.getrandbits(nb - 32)
        return "%0*X" % (nb // 4, v)

    def junk_line(self):
        r = self.r
        k = r.randint(0, 13)
        if k == 13:
            # a timestamped line ("@" + 12 digits + frame + ";") cut short anywhere, also inside the timestamp
            full = "@%012X" % r.getrandbits(48) + self.f_df17() + ";"
            return full[:r.choice([1, 2, 5, 6, 12, 13, 14, 20, r.randint(1, len(full) - 2)])].encode()
        if k == 11:
            # an over-long line whose TAIL, after a typical buffer size, is by itself a well-formed frame
            n = r.choice([1024, 4096, 8192, 16384, 32768, 65536, 65536, 131072])
            fill = r.choice([b"A", b"0", b"z", b" ", b"7"])
            return fill * n + r.choice([self.f_df17(), "%012X" % r.getrandbits(48) + self.f_df17(), self.f_short(5)]).encode()
        if k == 12:
            # what an integer parser would swallow: a sign or radix prefix in place of the first digit(s) of a frame
            f = r.choice([self.f_short(0), self.f_short(4), self.f_short(5), self.f_df17()])
            return (r.choice(["+", "-", "+0", "0x", "0X", " +"]) + f[1:]).encode()
        if k == 10:
            return self.text_line(r.choice([r.randint(0, 140), 15, 31, 62, 63, 64, 79, 127, 128, 255]), r.choice(["é", "€", "😀", "✈"]))
        if k == 0:
            return b""
        if k == 1:
            return bytes(r.getrandbits(8) for _ in range(r.randint(1, 40)))
        if k == 2:
            n = r.choice([1, 5, 13, 15, 25, 27, 29, 39, 41, 64])
            return ("%0*X" % (n, r.getrandbits(4 * n))).encode()
        if k == 3:
            return b"\x00" * r.randint(1, 5)
        if k == 4:
            return b"\r"
        if k == 5:
            return "héllo wörld ✈".encode("utf-8")
        if k == 6:
            return b"\xff\xfe" + self.any_frame().encode()
        if k == 7:
            return b"*" + self.any_frame().encode()[:-3] + b";"
        if k == 8:
            # right length, wrong DF/length pairing
            df = r.choice([17, 20, 21, 16, 18])
            return ("%014X" % ((df << 51) | r.getrandbits(51))).encode()
        df = r.choice([0, 4, 5, 11])
        return ("%028X" % ((df << 107) | r.getrandbits(107))).encode()

    def decorate(self, hexframe):
        r = self.r
        k = r.randint(0, 7)
        if k == 0:
            return "*" + hexframe + ";"
        if k == 1:
            return "@" + "%012X" % r.getrandbits(48) + hexframe + ";"
        if k == 2:
            return hexframe.lower()
        if k == 3:
            return " ".join(hexframe[i:i + 2] for i in range(0, len(hexframe), 2))
        if k == 4:
            return hexframe + "\r"
        return hexframe

    def corrupt(self, hexframe):
        """flip 1..3 bits in bits 6..n of a frame"""
        r = self.r
        n = len(hexframe) * 4
        v = int(hexframe, 16)
        for _ in range(r.randint(1, 3)):
            v ^= 1 << (n - r.randint(6, n))
        return "%0*X" % (n // 4, v)

    def random_opts(self):
        r = self.r
        o = {}
        if r.random() < 0.5:
            o["U"] = 1
        if r.random() < 0.4:
            o["R"] = 1
        if r.random() < 0.15:
            o["f"] = "+".join(str(x) for x in r.sample([0, 4, 5, 11, 16, 17, 18, 20, 21, 24], r.randint(1, 4)))
        if r.random() < 0.3:
            o["d"] = r.choice([1, 5, 60, 600])
        if r.random() < 0.5:
            o["O"] = ("%.4f,%.4f" % (r.uniform(-80, 80), r.uniform(-179, 179))).encode().hex().upper()
        return o

    def random_history(self, cid, nseg=None, nlines=None, junk=0.1, corrupt=0.05):
        r = self.r
        pool = r.sample(ICAOS, r.randint(1, 4))
        nseg = r.randint(1, 4) if nseg is None else nseg
        t = 0
        segs = []
        for _ in range(nseg):
            n = r.randint(1, 14) if nlines is None else nlines
            lines = []
            for _ in range(n):
                x = r.random()
                if x < junk:
                    lines.append(self.junk_line())
                else:
                    f = self.any_frame(r.choice(pool))
                    if r.random() < corrupt:
                        f = self.corrupt(f)
                    lines.append(self.decorate(f))
            segs.append(seg(t, lines))
            t += r.choice([0, 500, 1000, 3000, 9500, 10000, 10500, 30000, 59500, 60000, 60500, 700000])
        return H(cid, self.random_opts(), segs)
