#!/usr/bin/env python3
"""prints the markdown table of seeded changes (seeded/*/meta.json) for DESIGN.md section 10"""
import glob, json, os
rows = []
for p in sorted(glob.glob(os.path.join(os.path.dirname(os.path.abspath(__file__)), "..", "seeded", "*", "meta.json"))):
    m = json.load(open(p))
    d = os.path.basename(os.path.dirname(p))
    patch = open(os.path.join(os.path.dirname(p), "patch.diff")).read()
    files = sorted(set(l[6:] for l in patch.splitlines() if l.startswith("+++ b/")))
    need = ""
    notes = os.path.join(os.path.dirname(p), "notes.md")
    if os.path.exists(notes):
        txt = [l.strip() for l in open(notes).read().splitlines() if l.strip() and not l.startswith("#")]
        need = (txt[0] if txt else "")[:160]
    caught = ", ".join(m.get("caught_by", [])) or "MISSED"
    rows.append("| %s | %s | %s | %s | %s |" % (d, ", ".join(os.path.basename(f) for f in files), need.replace("|", "/"), caught, (m.get("history", "") or "")[:140].replace("|", "/")))
print("| seeded | files touched | what it is / needs | caught by | history |\n|---|---|---|---|---|")
print("\n".join(rows))
