"""Frame construction helpers for the case generators (independent of /repo and of the Coq spec).

All frames are Python ints of 56 or 112 bits; bit 1 is the most significant bit.
"""
import random

GEN = 0x1FFF409  # x^24 + ... Mode S generator, 25 bits


def crc24(data: int, nbits: int) -> int:
    """Remainder of data * x^24 divided by GEN (data has nbits bits)."""
    reg = data << 24
    for i in range(nbits + 24 - 1, 23, -1):
        if reg >> i & 1:
            reg ^= GEN << (i - 24)
    return reg & 0xFFFFFF


def setbits(frame: int, total: int, sb: int, eb: int, val: int) -> int:
    """Set bits sb..eb (1-based, inclusive, MSB first) of a total-bit frame to val."""
    w = eb - sb + 1
    sh = total - eb
    mask = ((1 << w) - 1) << sh
    return (frame & ~mask) | ((val & ((1 << w) - 1)) << sh)


def getbits(frame: int, total: int, sb: int, eb: int) -> int:
    w = eb - sb + 1
    return (frame >> (total - eb)) & ((1 << w) - 1)


def with_parity_pi(body: int, total: int, ic: int = 0) -> int:
    """body has total-24 bits; append PI = crc ^ ic  (DF11/17/18)."""
    return (body << 24) | (crc24(body, total - 24) ^ ic)


def with_parity_ap(body: int, total: int, icao: int) -> int:
    """append AP = crc ^ icao  (DF0/4/5/16/20/21)."""
    return (body << 24) | (crc24(body, total - 24) ^ icao)


def df17(icao: int, me: int, ca: int = 5, df: int = 17) -> int:
    body = (df << 83) | (ca << 80) | (icao << 56) | (me & ((1 << 56) - 1))
    return with_parity_pi(body, 112)


def df11(icao: int, ca: int = 5, ic: int = 0) -> int:
    body = (11 << 27) | (ca << 24) | icao
    return with_parity_pi(body, 56, ic)


def short_ap(df: int, icao: int, f27: int) -> int:
    """DF0/4/5: 5 bits DF + 27 bits payload (bits 6..32) + AP."""
    body = (df << 27) | (f27 & ((1 << 27) - 1))
    return with_parity_ap(body, 56, icao)


def long_ap(df: int, icao: int, f27: int, mb: int) -> int:
    """DF16/20/21: 5 bits DF + 27 bits + 56-bit MB/MV + AP."""
    body = (df << 83) | ((f27 & ((1 << 27) - 1)) << 56) | (mb & ((1 << 56) - 1))
    return with_parity_ap(body, 112, icao)


def hx(frame: int, total: int) -> str:
    return "%0*X" % (total // 4, frame)


def enc_line(s) -> str:
    """hex-encode a raw line (str or bytes) for the case file."""
    if isinstance(s, str):
        s = s.encode("latin-1")
    return s.hex().upper() if s else "."


# ---- field encoders ----------------------------------------------------------

def ac13_from_alt25(n: int, m: int = 0) -> int:
    """13-bit AC with Q=1: N (11 bits) spread around M (bit 7 of 13 from left) and Q (bit 9)."""
    # layout: b1..b6 | M | b7 | Q | b8..b11
    hi6 = (n >> 5) & 0x3F
    b7 = (n >> 4) & 1
    lo4 = n & 0xF
    return (hi6 << 7) | (m << 6) | (b7 << 5) | (1 << 4) | lo4


def ac12_from_alt25(n: int) -> int:
    """12-bit AC (no M) with Q=1: 7 bits | Q | 4 bits."""
    return ((n >> 4) << 5) | (1 << 4) | (n & 0xF)


def me_airborne_pos(tc: int, ac12: int, f: int, lat17: int, lon17: int, ss: int = 0, saf: int = 0, t: int = 0) -> int:
    return (tc << 51) | (ss << 49) | (saf << 48) | (ac12 << 36) | (t << 35) | (f << 34) | (lat17 << 17) | lon17


def me_surface_pos(tc: int, mov: int, trk_valid: int, trk: int, f: int, lat17: int, lon17: int, t: int = 0) -> int:
    return (tc << 51) | (mov << 44) | (trk_valid << 43) | (trk << 36) | (t << 35) | (f << 34) | (lat17 << 17) | lon17


def me_ident(tc: int, ca: int, chars) -> int:
    v = 0
    for c in chars:
        v = (v << 6) | (c & 63)
    return (tc << 51) | (ca << 48) | v


def me_velocity(st: int, dew: int, vew: int, dns: int, vns: int, vrsrc: int, svr: int, vr: int,
                sdif: int = 0, dif: int = 0, ic: int = 0, ifr: int = 0, nuc: int = 0) -> int:
    return ((19 << 51) | (st << 48) | (ic << 47) | (ifr << 46) | (nuc << 43) | (dew << 42) | (vew << 32)
            | (dns << 31) | (vns << 21) | (vrsrc << 20) | (svr << 19) | (vr << 10) | (sdif << 7) | dif)


def ia5_code(ch: str) -> int:
    if "A" <= ch <= "Z":
        return ord(ch) - 64
    if "0" <= ch <= "9":
        return ord(ch)
    return 32


# ---- CPR encoder (DO-260B, airborne), float based; used only to synthesise inputs ----
import math


def _nl(lat: float) -> int:
    lat = abs(lat)
    if lat < 1e-12:
        return 59
    if lat > 87.0:
        return 1
    if lat == 87.0:
        return 2
    a = 1 - math.cos(math.pi / 30)
    b = math.cos(math.pi / 180 * lat) ** 2
    return int(math.floor(2 * math.pi / math.acos(1 - a / b)))


def cpr_encode(lat: float, lon: float, odd: int, nb: int = 17):
    dlat = 360.0 / (60 - odd)
    yz = int(math.floor((1 << nb) * ((lat % dlat) / dlat) + 0.5))
    rlat = dlat * (yz / (1 << nb) + math.floor(lat / dlat))
    nl = _nl(rlat)
    dlon = 360.0 / max(nl - odd, 1)
    xz = int(math.floor((1 << nb) * ((lon % dlon) / dlon) + 0.5))
    return yz & ((1 << 17) - 1), xz & ((1 << 17) - 1)


class Rng(random.Random):
    pass
