"""Comparison of implementation observations with model observations (canonicalised)."""
import math
from fractions import Fraction

FLOAT_FIELDS = {"lat", "lon", "mach", "gm", "temp"}
ALL_FIELDS = ["key", "icao", "ca", "cf", "cb", "cat", "reg", "ais", "alt", "altg", "alts", "sela", "baro", "tas_",
              "sq", "ss", "te", "vr", "vrs", "cl0", "cl1", "co0", "co1", "cs", "ct0", "ct1", "lat", "lon", "dist",
              "gs", "tas", "ias", "mach", "gm", "turn", "trk", "trks", "hdg", "hdgs", "roll", "tar", "b5t", "temp",
              "wind", "turb", "hum", "pres", "ts", "pt", "tt", "ht", "ltc", "ldf", "ver"]
TOL = 1e-7


def parse_row(s):
    d = {}
    # ais may contain no spaces (blanks are filtered by the decoder), so a plain split is safe
    for tok in s.split(" "):
        if "=" in tok:
            k, v = tok.split("=", 1)
            d[k] = v
    return d


def parse_obs(obs):
    """obs -> list of segments, each a list of row dicts"""
    if obs == "":
        return [[]]
    segs = []
    for seg in obs.split("#"):
        rows = [parse_row(r) for r in seg.split("|") if r]
        segs.append(rows)
    return segs


def qval(s):
    if "/" in s:
        a, b = s.split("/")
        return Fraction(int(a), int(b))
    return Fraction(s)


def haversine(lat1, lon1, lat2, lon2):
    r = 6371.0
    la1, lo1, la2, lo2 = map(math.radians, (lat1, lon1, lat2, lon2))
    a = math.sin((la2 - la1) / 2) ** 2 + math.cos(la1) * math.cos(la2) * math.sin((lo2 - lo1) / 2) ** 2
    return 2 * r * math.asin(min(1.0, math.sqrt(a)))


def field_equal(k, vi, vm):
    """vi: implementation token, vm: model token"""
    if vi == vm:
        return True
    if k in FLOAT_FIELDS:
        if vi == "-" or vm == "-":
            return False
        return abs(float(vi) - float(qval(vm))) <= TOL
    if k == "dist":
        if vi == "-" or vm == "-":
            return False
        if vm.startswith("D:"):
            a, b, c, d = [float(qval(x)) for x in vm[2:].split(";")]
            return abs(float(vi) - haversine(a, b, c, d)) <= 1e-5
        return False
    return False


def diff_rows(ri, rm, fields):
    out = []
    for k in fields:
        vi, vm = ri.get(k), rm.get(k)
        if vi is None and vm is None:
            continue
        if vi is None or vm is None or not field_equal(k, vi, vm):
            out.append((k, vi, vm))
    return out


def compare_case(kind, impl, model, fields=None):
    """impl/model: (outcome, obs).  Returns list of human-readable differences (empty = agree)."""
    fields = fields or ALL_FIELDS
    oi, bi = impl
    om, bm = model
    oi = oi.replace("+slow", "")
    if oi != om:
        return ["outcome impl=%s model=%s" % (oi, om)]
    if oi != "ok":
        return []
    if kind in ("G", "K"):
        return [] if bi == bm else ["G impl=%r model=%r" % (bi, bm)]
    if kind == "C":
        return compare_frames(bi, bm)
    if kind == "D":
        fields = ["key", "disp"]
    si, sm = parse_obs(bi), parse_obs(bm)
    if len(si) != len(sm):
        return ["segments impl=%d model=%d" % (len(si), len(sm))]
    out = []
    for n, (a, b) in enumerate(zip(si, sm)):
        ka = [r.get("key", r.get("icao")) for r in a]
        kb = [r.get("key", r.get("icao")) for r in b]
        if ka != kb:
            out.append("seg %d keys impl=%s model=%s" % (n, ka, kb))
            continue
        for ra, rb in zip(a, b):
            for k, vi, vm in diff_rows(ra, rb, fields):
                out.append("seg %d row %s field %s impl=%s model=%s" % (n, ra.get("key", ra.get("icao")), k, vi, vm))
    return out


def read_obs(path):
    import os
    d = {}
    if os.path.exists(path + ".hang"):
        d.update(read_obs(path + ".hang"))      # the harness watchdog's record of a reader run that never returned
    with open(path, encoding="utf-8", errors="replace") as f:
        for line in f:
            line = line.rstrip("\n")
            if not line:
                continue
            p = line.split("\t")
            while len(p) < 3:
                p.append("")
            d[p[0]] = (p[1], p[2])
    return d


def compare_frames(bi, bm):
    """CLI frames: frames separated by \\x1e, lines by \\x1d.  The model prints ????? for a distance cell."""
    fi = bi.split("\x1e") if bi else []
    fm = bm.split("\x1e") if bm else []
    if len(fi) != len(fm):
        return ["frames impl=%d model=%d" % (len(fi), len(fm))]
    out = []
    for n, (a, b) in enumerate(zip(fi, fm)):
        la, lb = a.split("\x1d"), b.split("\x1d")
        if len(la) != len(lb):
            out.append("frame %d lines impl=%d model=%d" % (n, len(la), len(lb)))
            continue
        for k, (x, y) in enumerate(zip(la, lb)):
            if x == y:
                continue
            if len(x) == len(y) and line_close(x, y):
                continue
            out.append("frame %d line %d impl=%r model=%r" % (n, k, x, y))
            if len(out) > 8:
                return out
    return out


def line_close(x, y):
    """same line up to (a) a distance cell the model cannot compute (?????) and (b) the last digit of a
    coordinate cell (binary64 vs exact rational rounding)"""
    import re
    if "?????" in y:
        i = y.index("?????")
        x = x[:i] + "?????" + x[i + 5:]
        if x == y:
            return True
    # coordinates occupy columns 25..46 of a row: compare numerically
    ta, tb = x.split(" "), y.split(" ")
    if len(ta) != len(tb):
        return False
    for p, q in zip(ta, tb):
        if p == q:
            continue
        if re.fullmatch(r"-?\d+\.\d{5}", p) and re.fullmatch(r"-?\d+\.\d{5}", q) and abs(float(p) - float(q)) <= 1.1e-5:
            continue
        return False
    return True
