#!/usr/bin/env python3
"""mkprop.py <Cnn> <spec.json>: generate coq/Properties/Cnn.v from proved lemmas.
spec.json: {"title":..., "imports":"Base Table ...", "pre": "extra vernacular", "theorems":[[thm_name, lemma_name, doc], ...], "post": "examples"}
The statement text is obtained from Coq itself (Check lemma) so that section variables are generalised."""
import json, os, re, subprocess, sys
pid, specf = sys.argv[1], sys.argv[2]
spec = json.load(open(specf))
COQ = "/verif/coq"
tmp = "/verif/.build/audit/mkprop_%s.v" % pid
os.makedirs(os.path.dirname(tmp), exist_ok=True)
with open(tmp, "w") as f:
    f.write("From SQ Require Import %s.\n%s\nSet Printing Width 110.\nSet Printing Depth 1000.\n" % (spec["imports"], spec.get("pre", "")))
    for t, l, d in spec["theorems"]:
        f.write('Goal True. idtac "@@BEGIN %s". exact I. Qed.\nCheck %s.\n' % (l, l))
    f.write('Goal True. idtac "@@END". exact I. Qed.\n')
out = subprocess.run(["coqc", "-q", "-noglob", "-Q", COQ, "SQ", "-w", "none", tmp], capture_output=True, text=True, cwd=os.path.dirname(tmp)).stdout
stmts = {}
for m in re.finditer(r"@@BEGIN (\S+)\n(.*?)(?=@@BEGIN|@@END)", out, re.S):
    body = m.group(2)
    i = body.index("\n     : ")
    stmts[m.group(1)] = " ".join(x.strip() for x in body[i + 8:].strip().splitlines())
append = spec.get("append", False)
lines = ["", "(** ---- %s ---- *)" % spec["title"], "From SQ Require Import %s." % spec["imports"], spec.get("pre", ""), ""] if append else \
        ["(** %s *)" % spec["title"], "From SQ Require Import %s." % spec["imports"], spec.get("pre", ""), ""]
for t, l, d in spec["theorems"]:
    s = stmts[l]
    lines += ["(** %s *)" % d, "Theorem %s : %s.\nProof. exact %s. Qed." % (t, s, l), "Check %s : %s." % (t, s), "Print Assumptions %s.\n" % t]
lines.append(spec.get("post", ""))
open(os.path.join(COQ, "Properties", pid + ".v"), "a" if append else "w").write("\n".join(lines) + "\n")
print(pid, len(spec["theorems"]), "theorems")
