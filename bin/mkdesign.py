#!/usr/bin/env python3
"""fills the generated parts of DESIGN.md: theorem index (from coq/Properties/*.v) and seeded-change table"""
import glob, os, re, subprocess
V = os.path.dirname(os.path.dirname(os.path.abspath(__file__)))
idx = []
for p in sorted(glob.glob(os.path.join(V, "coq", "Properties", "C*.v"))):
    pid = os.path.basename(p)[:-2]
    txt = open(p, encoding="utf-8").read()
    items = re.findall(r"\(\*\* ((?:(?!\(\*\*).)*?) \*\)\s*\nTheorem (\w+)", txt, re.S)
    idx.append("**%s** (%d theorems)\n" % (pid, len(re.findall(r"^Theorem ", txt, re.M))))
    for doc, name in items:
        idx.append("- `%s` — %s" % (name, " ".join(doc.split())[:260]))
    idx.append("")
seed = subprocess.run(["python3", os.path.join(V, "bin", "mkseedtable.py")], capture_output=True, text=True).stdout
d = open(os.path.join(V, "DESIGN.md"), encoding="utf-8").read()
def fill(d, tag, body):
    a, b = "<!-- %s -->" % tag, "<!-- /%s -->" % tag
    if a not in d:
        return d + "\n" + a + "\n" + body + "\n" + b + "\n"
    i, j = d.index(a), d.index(b)
    return d[:i] + a + "\n" + body + "\n" + d[j:]
d = fill(d, "SEEDED", "## Appendix A — seeded changes (sub-agent mutations) and which checks catch them\n\n" + seed)
d = fill(d, "THEOREMS", "## Appendix B — theorem index (generated from coq/Properties)\n\n" + "\n".join(idx))
open(os.path.join(V, "DESIGN.md"), "w", encoding="utf-8").write(d)
print("DESIGN.md updated")
