#!/usr/bin/env python3
"""Writes MANIFEST.json from the per-property modules (claimed = has bin/props/<id>.py with CLAIM)."""
import importlib, json, os, sys
HERE = os.path.dirname(os.path.abspath(__file__))
sys.path.insert(0, HERE)
props = [json.loads(l) for l in open(os.path.join(HERE, "..", "properties.jsonl"))]
checks, na = [], []
for p in props:
    pid = p["id"]
    try:
        mod = importlib.import_module("props." + pid)
        claim = getattr(mod, "CLAIM", None)
    except ModuleNotFoundError:
        claim = None
    if not claim:
        na.append({"property_id": pid, "reason": "not claimed yet: its theorem/correspondence check is still under construction in this framework (the technique applies; see DESIGN.md section 7)"})
        continue
    checks.append({
        "property_id": pid,
        "quick_cmd": "bin/vcheck %s quick" % pid,
        "thorough_cmd": "bin/vcheck %s thorough" % pid,
        "evidence_file": "evidence/%s.json" % pid,
        "replay_cmd_template": "bin/vcheck replay {path}",
        "engine": "coq-model",
        "level_claimed": {"category": "proof", "text": claim["text"], "design_ref": "DESIGN.md 7 " + pid},
        "level_note": claim["note"],
        "technique": claim["technique"],
    })
m = {
    "version": 1,
    "setup_cmd": "bin/vcheck setup",
    "hooks": {"guard": "cargo feature `verif` of the squitterator crate (off by default)",
              "enable": "the harness crate depends on /repo with features = [\"verif\"] (harness/Cargo.toml); the only hook is `pub use decoder::format_simple_display` in src/lib.rs, which lets the harness render a table row at a simulated age (case kind D); the CLI binary used by the checks is built WITHOUT the feature",
              "baseline_off_cmd": "cd /repo && cargo test --workspace --no-fail-fast --offline",
              "source_commits": ["3e20f91e7702c4e83e5457deb41b93f476072481"], "add_only": True},
    "engines": [{"name": "coq-model", "path": "coq/", "serves_properties": [c["property_id"] for c in checks],
                 "kind_free_text": "Coq 8.16 model + theorems (coq/Model, coq/Spec, coq/Proofs, coq/Properties), tables regenerated from /repo by translate/, model extracted to OCaml and run against the Rust implementation by harness/ on generated inputs; python oracle (bin/pyspec.py) for failing-input search"}],
    "checks": checks,
    "notes": "fix commits in /repo and known findings are listed in known_findings.json; DESIGN.md explains the approach",
    "not_applicable": na,
}
json.dump(m, open(os.path.join(HERE, "..", "MANIFEST.json"), "w"), indent=1)
print("claimed:", [c["property_id"] for c in checks])
