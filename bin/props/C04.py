"""C04 -- squitters with failing parity never change the table."""
from sqgen import *
import pyspec

ID = "C04"
TARGETS = ["Properties/C04.vo"]
FIELDS = ["key", "ts"]
EXPLANATION = ("theorems: accepted DF17/18 => syndrome 0, DF11 => upper 17 bits 0; any other DF11/17/18 line is the identity; model CRC = "
               "GF(2) long division for all payloads; all 1-/2-bit errors in bits 6..112 and all bursts <= 24 bits have non-zero syndrome "
               "(algebraic). Correspondence: valid squitters x all 1-bit errors, sampled 2-bit, bursts at every offset, heavier patterns, "
               "injected into histories; table before = table after")
ASSUMPTIONS = ["the frame value is read MSB-first from the hex digits (Proofs/RangeSpec.v ties range_value to the bit numbering)"]


def valid_squitter(g):
    r = g.r
    k = r.random()
    icao = r.choice(ICAOS)
    if k < 0.2:
        return hx(df11(icao, r.randint(0, 7), r.choice([0, 0, 1, 0x7F, r.randint(0, 127)])), 56), 56
    me = r.choice([g.me_ident, g.me_airpos, g.me_velocity, g.me_random_tc])()
    return g.f_df17(icao, me, df=r.choice([17, 17, 17, 18])), 112


def gen(seed, tier):
    g = Gen(seed * 1000003 + 4)
    r = g.r
    cases = []
    n = 0

    def hist(base, bad):
        nonlocal n
        pre = [g.any_frame(r.choice(ICAOS)) for _ in range(r.randint(0, 3))]
        o = {"U": 1} if r.random() < 0.5 else {}
        if r.random() < 0.2:
            o["M"] = r.choice(["17", "11", "18", "11+17+18", "4"])      # message logging is no way around the parity gate
        # the corrupted frame arrives 3 s later: if it were applied, the last-contact age would restart
        cases.append(H("C04-%d" % n, o, [seg(0, pre + [base]), seg(3000, [bad])]))
        n += 1
    bases = [(hx(df11(r.choice(ICAOS), r.randint(0, 7), 0), 56), 56),
             (hx(df11(r.choice(ICAOS), r.randint(0, 7), r.randint(1, 127)), 56), 56),
             (g.f_df17(r.choice(ICAOS), g.me_airpos()), 112),
             (g.f_df17(r.choice(ICAOS), g.me_ident(), df=18), 112)]
    if tier != "quick":
        bases += [valid_squitter(g) for _ in range(36)]
    for f, nb in bases:
        v = int(f, 16)
        # all single-bit errors in bits 6..n
        for b in range(6, nb + 1):
            hist(f, "%0*X" % (nb // 4, v ^ (1 << (nb - b))))
    # DF11: every error pattern on the last byte that touches bit 7 of the remainder (the interrogator code occupies bits 0-6
    # only): rejected whatever the arithmetic relation between received and computed parity
    for _ in range(2 if tier == "quick" else 12):
        f11 = hx(df11(r.choice(ICAOS), r.randint(0, 7), r.choice([0, r.randint(1, 127)])), 56)
        v11 = int(f11, 16)
        for e in range(0x80, 0x100):
            hist(f11, hx(v11 ^ e, 56))
    # special values of the parity field itself: all zeros, all ones, the CRC with the address overlaid (as DF4/5/20/21 do),
    # the parity of another frame -- each a burst of at most 24 bits on a valid squitter
    for _ in range(12 if tier == "quick" else 200):
        f, nb = valid_squitter(g)
        v = int(f, 16)
        pi = v & 0xFFFFFF
        for special in (0, 0xFFFFFF, pi ^ ((v >> (nb - 32)) & 0xFFFFFF), int(valid_squitter(g)[0], 16) & 0xFFFFFF, pi ^ 0x800000, pi ^ 1):
            if special != pi and not (nb == 56 and (special ^ pi) < 128):
                hist(f, "%0*X" % (nb // 4, (v & ~0xFFFFFF) | special))
    # CRC-structured data: the leading part of the frame is itself a multiple of the generator and zeros follow (the
    # division register is all zero in mid-frame), errors in the bits after that; also all-zero message fields
    def clmul(a, b):
        x = 0
        while b:
            if b & 1:
                x ^= a
            a <<= 1
            b >>= 1
        return x
    made = 0
    tries = 0
    want = 24 if tier == "quick" else 400
    while made < want and tries < 200000:
        tries += 1
        df = r.choice([17, 17, 18, 11])
        nb = 56 if df == 11 else 112
        nd = nb - 24
        pq = clmul(0x1FFF409, r.getrandbits(r.randint(1, 22 if nb == 112 else 6)) | 1)
        L = pq.bit_length()
        lead = 1 if df != 11 else 2          # position (1-based) of the first set bit of the DF pattern
        if L + lead - 1 > nd - (24 if nb == 112 else 0):
            continue
        data = pq << (nd - L - (lead - 1))
        if data >> (nd - 5) != df:
            continue
        tail = r.choice([1, 1 << r.randint(0, 23), r.getrandbits(11), r.getrandbits(24)]) if nb == 112 else 0
        good = with_parity_pi(data, nb)
        for bad in ((data | tail) << 24, ((data | tail) << 24) | (good & 0xFFFFFF), (data << 24) | (1 << r.randint(7, 23))):
            if bad != good and not (nb == 56 and (bad ^ good) < 128):
                hist(hx(good, nb), hx(bad, nb))
        made += 1
    for df in (17, 18):
        for a in (r.choice(ICAOS), 0x174077):
            good = with_parity_pi((df << 83) | (5 << 80) | (a << 56) | (r.choice([0, 0x58, 0x99]) << 48), 112)
            for b in (25, 30, 40):
                hist(hx(good, 112), hx(good ^ (1 << r.randint(b - 1, b + 6)), 112))
    # valid squitters whose parity field is all zeros (data bits a multiple of the generator), and their corruptions
    for df in (17, 18, 11):
        for k in range(2 if tier == "quick" else 20):
            fhex, nb, a = crc_zero_frame(r, df)
            v = int(fhex, 16)
            for bad in (v ^ (1 << r.randint(24, nb - 6)), v ^ (1 << r.randint(7, 23)), v ^ (a & 0xFFFFFF), v ^ 0xFFFFFF):
                if bad != v and not (nb == 56 and (bad ^ v) < 128):
                    hist(fhex, hx(bad, nb))
    # a remainder equal to the frame's own address (the overlay the address/parity formats use) is still a failing parity
    for _ in range(6 if tier == "quick" else 60):
        f, nb = valid_squitter(g)
        v = int(f, 16)
        a = (v >> (nb - 32)) & 0xFFFFFF
        if a and not (nb == 56 and a < 128):
            hist(f, hx(v ^ a, nb))
    # in the SAME reader run, right after a valid long frame of the same aircraft: a different frame of that aircraft (an
    # identification squitter with a tell-tale callsign) hit by an error -- in particular in the first byte (bits 6-8) --
    # must not be applied: the callsign stays blank
    for k in range(24 if tier == "quick" else 240):
        icao = r.choice(ICAOS)
        df = r.choice([17, 17, 18])
        a1 = g.f_df17(icao, g.me_airpos(), ca=5, df=df)
        a2 = int(g.f_df17(icao, me_ident(4, 3, [ia5_code(c) for c in "TELLTALE"]), ca=5, df=df), 16)
        bit = [6, 7, 8][k % 3] if k % 2 == 0 else r.randint(6, 112)
        o = {"U": 1} if k % 4 < 2 else {}
        cases.append(H("C04-t%d" % n, o, [seg(0, [a1, hx(a2 ^ (1 << (112 - bit)), 112)])]))
        n += 1
    # bookkeeping: a failing frame must not tick the expiry sweep either -- stale rows (older than -d) stay while only
    # failing frames arrive, however many
    for i in range(6 if tier == "quick" else 60):
        pool = r.sample(ICAOS, 3)
        good = [g.f_df17(a, g.me_airpos()) for a in pool] + [g.f_df11(pool[0])]
        bad = []
        while len(bad) < r.choice([13, 14, 25, 40]):
            f, nb = valid_squitter(g)
            bad.append("%0*X" % (nb // 4, int(f, 16) ^ (1 << r.randint(0, nb - 6))))
        o = {"d": r.choice([0, 1, 2])}
        if i % 2:
            o["U"] = 1
        cases.append(H("C04-s%d" % n, o, [seg(0, good), seg(r.choice([2500, 3000, 10000]), bad)]))
        n += 1
    for _ in range(300 if tier == "quick" else 6000):
        f, nb = valid_squitter(g)
        v = int(f, 16)
        k = r.random()
        if k < 0.4:
            i, j = sorted(r.sample(range(6, nb + 1), 2))
            e = (1 << (nb - i)) | (1 << (nb - j))
        elif k < 0.8:
            w = r.randint(2, 24)
            s = r.randint(0, nb - 5 - w)
            e = ((r.getrandbits(w) | 1 | (1 << (w - 1))) << s)
        else:
            e = r.getrandbits(nb - 5)
        if e == 0:
            continue
        hist(f, "%0*X" % (nb // 4, v ^ e))
    return cases


def oracle(parts, outcome, obs):
    if outcome.replace("+slow", "") != "ok":
        return "outcome %s" % outcome
    if parts[0].startswith("C04-t"):
        lines = pyspec.case_segments(parts)[0][1]
        if pyspec.frame_of_line(lines[1]) is None:
            for a, row in pyspec.rows_of(obs.split("#")[-1]).items():
                if row.get("ais") not in ("-", None):
                    return "a squitter with failing parity (%s), arriving right after a valid frame of the same aircraft, was applied: callsign %s" % (lines[1].decode(), row.get("ais"))
        return None
    segs = pyspec.case_segments(parts)
    bad = segs[1][1][0]
    fr = None if all(pyspec.frame_of_line(x) is None for x in segs[1][1]) else "some line is a frame"

    o = obs.split("#")
    if len(o) != 2:
        return "missing observation"
    if fr is None:
        AGES = ("ts", "ct0", "ct1", "pt", "tt", "ht", "b5t")
        ra, rb = pyspec.rows_of(o[0]), pyspec.rows_of(o[1])
        if set(ra) != set(rb):
            return "a DF11/17/18 frame with failing parity (%s) changed the set of aircraft" % bad.decode()
        for a in ra:
            ch = [f for f in ra[a] if f not in AGES and ra[a][f] != rb[a].get(f)]
            if ch:
                return "a DF11/17/18 frame with failing parity (%s) changed %s of %06X" % (bad.decode(), ch, a)
            want = str(int(ra[a]["ts"]) + (segs[1][0] - segs[0][0]) // 1000)
            if rb[a]["ts"] != want:
                return "a DF11/17/18 frame with failing parity (%s) restarted the last-contact age of %06X (age %s, expected %s)" % (bad.decode(), a, rb[a]["ts"], want)
    return None


CLAIM = {
    "text": "Theorems C04_gate / C04_bad_parity_inert / C04_crc112 / C04_crc56 / C04_detects_1_2_bit / C04_detects_burst / C04_df11_1_2_bit (Coq, closed): a DF17/18 line is applied only if the remainder of the whole frame by the generator 0x1FFF409 (schoolbook GF(2) division) is 0, a DF11 line only if its upper 17 bits are 0; every other such line is the identity on table and counters; the model's bit-serial CRC equals the division for ALL payloads (linearity + basis); every 1-/2-bit error in bits 6..112 and every non-zero burst of <= 24 bits added to a valid squitter gives a non-zero remainder; for DF11 exactly the errors confined to the 7 IC bits escape. Tied to the code by injecting all single-bit errors, sampled 2-bit errors, bursts and heavier patterns of valid squitters into histories and comparing the table before and after.",
    "note": "The detection theorems are about frame values (N); RangeSpec/FrameProofs tie them to the nibble vectors the code handles.",
    "technique": "Coq proof: GF(2) linearity + basis sweep, algebraic burst lemma, finite reflection for 6328 patterns; differential error-injection runs",
}
