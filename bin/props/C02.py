"""C02 -- a line is a frame iff its hex digits form a 56/112-bit frame of matching DF."""
from sqgen import *
import pyspec
import sqcmp

ID = "C02"
TARGETS = ["Properties/C02.vo"]
NEED_CLI = True
FIELDS = ["key"]
EXPLANATION = ("theorems: get_message accepts iff payload (14|28, 26|40-12 digits) /\\ DF/length agreement /\\ parity; result depends "
               "only on the digit sequence; rejected lines are the identity on the state. Correspondence: every digit count 0..64, "
               "decoration alphabets, both cases, timestamp prefix, every DF against both lengths")
ASSUMPTIONS = ["char::to_digit(16) is ASCII-only: multi-byte UTF-8 characters never yield digits (modelled on bytes)"]

DECOR = ["*", "@", ";", ":", ",", " ", "\t", "\r", "g", "z", "G", "-", "é", "✈", " ", "x", "."]
# characters beyond U+00FF whose code point ends in the byte of an ASCII hex digit or letter (Cyrillic а..й / с..ц, Latin
# Extended ı İ ł Ł, fullwidth digits and letters, mathematical digits): none of them is a hexadecimal digit
LOOKALIKE = [chr(hi + b) for hi in (0x0100, 0x0400, 0x0600, 0x2000, 0x4E00, 0xFF00) for b in list(range(0x30, 0x3A)) + list(range(0x41, 0x47)) + list(range(0x61, 0x67))
             if not (0xD800 <= hi + b <= 0xDFFF)] + [chr(0xFF10 + i) for i in range(10)] + [chr(0xFF21 + i) for i in range(6)] + [chr(0x1D7CE + i) for i in range(10)]


def decorate_heavy(r, digits):
    out = []
    for ch in digits:
        while r.random() < 0.25:
            out.append(r.choice(DECOR))
        out.append(ch.lower() if r.random() < 0.5 else ch.upper())
    while r.random() < 0.5:
        out.append(r.choice(DECOR))
    return "".join(out).encode("utf-8")


def gen(seed, tier):
    g = Gen(seed * 1000003 + 2)
    r = g.r
    cases = []
    n = 0

    def add(line):
        nonlocal n
        cases.append(G("C02-g%d" % n, line))
        n += 1
    reps = 3 if tier == "quick" else 30
    # every digit count 0..64 : random digits, and frames padded/truncated to that count
    for cnt in range(0, 65):
        for _ in range(reps):
            ds = "".join(r.choice("0123456789ABCDEF") for _ in range(cnt))
            add(decorate_heavy(r, ds))
        f = g.any_frame()
        ds = (f + f + f)[:cnt]
        add(ds.encode())
    # well-formed frames of every kind, decorated; with / without a 12-digit prefix
    for _ in range(300 * reps):
        f = g.any_frame()
        if r.random() < 0.3:
            f = "%012X" % r.getrandbits(48) + f
        add(decorate_heavy(r, f))
    # every DF value against both lengths, with parity fixed up where the format has one
    for df in range(32):
        for nb in (56, 112):
            for _ in range(reps):
                body = (df << (nb - 24 - 5)) | r.getrandbits(nb - 24 - 5)
                if df in (11, 17, 18):
                    fr = with_parity_pi(body, nb)
                else:
                    fr = with_parity_ap(body, nb, r.choice(ICAOS))
                add(hx(fr, nb).encode())
    # corrupted parity
    for _ in range(100 * reps):
        add(g.corrupt(g.any_frame()).encode())
    # rejected lines must leave the table untouched (history level)
    for i in range(40 * reps):
        pool = r.sample(ICAOS, 2)
        good = [g.any_frame(r.choice(pool)) for _ in range(r.randint(1, 5))]
        bad = [g.junk_line() for _ in range(r.randint(1, 5))]
        cases.append(H("C02-h%d" % i, {}, [seg(0, good), seg(0, bad)]))
    # look-alike characters: as decoration of a valid frame (must not change it) and in place of one of its digits (the line
    # then has one digit too few and is no frame)
    for _ in range(40 * reps):
        f = g.any_frame()
        ch = r.choice(LOOKALIKE)
        i = r.randrange(len(f) + 1)
        add((f[:i] + ch + f[i:]).encode("utf-8"))
        i = r.randrange(len(f))
        add((f[:i] + ch + f[i + 1:]).encode("utf-8"))
        add(("".join(r.choice(LOOKALIKE) for _ in range(r.choice([14, 28, 26, 40])))).encode("utf-8"))
    # bookkeeping: lines that are no frames must not tick the expiry sweep -- stale rows stay while only such lines arrive
    for i in range(6 if tier == "quick" else 60):
        pool = r.sample(ICAOS, 3)
        good = [g.f_df17(a, g.me_airpos()) for a in pool]
        bad = []
        for _ in range(r.choice([13, 14, 25, 40])):
            j = g.junk_line().replace(b"\n", b"")
            bad.append(j if pyspec.frame_of_line(j) is None else b"#")
        o = {"d": r.choice([0, 1, 2])}
        if i % 2:
            o["U"] = 1
        cases.append(H("C02-k%d" % i, o, [seg(0, good), seg(r.choice([2500, 3000, 10000]), bad)]))
    # decoration far beyond any line-length guess, through the READER (file source): blanks, NULs, tabs around / inside a frame
    for i in range(6 if tier == "quick" else 40):
        f1, f2 = g.f_df17(), g.f_df17()
        pad = r.choice([b" ", b"\x00", b"\t", b"-", b"z"])
        n1 = r.choice([1000, 1025, 1500, 4096, 70000])
        l1 = pad * n1 + f1.encode()
        l2 = f2[:10].encode() + pad * r.choice([1100, 5000]) + f2[10:].encode() + pad * 30
        cases.append(H("C02-xpad-%d" % i, {}, [blob(0, l1 + b"\r\n" + l2 + b"\n"), seg(0, [g.f_df17()])]))
    # TCP source: a line whose bytes arrive in two parts 1.5 s apart is the same line (event type 9 of the scripted peer)
    for i in range(1 if tier == "quick" else 3):
        fa, fb, fc = g.f_df17(), g.f_df17(), g.f_df17()
        cut = r.randint(3, 25)
        body = (fa[:cut] + "|" + fa[cut:] + "\n" + fb + "\n").encode()
        cases.append(("C02-tcp%d" % i, "T", opts_str({"i": "x", "u": -1, "o": "x"}), ";".join([blob(9, body), seg(0, [fc])])))
    # context independence: whether a line is a frame depends on its own digits only, whatever kind of line
    # (skipped at whichever stage of the reader loop) came immediately before it in the same file
    def contexts():
        yield "empty", {}, ""
        yield "junk", {}, g.junk_line()
        yield "short", {}, g.any_frame()[:13]
        yield "12digits", {}, "%012X" % r.getrandbits(48)
        yield "badparity", {}, g.corrupt(g.f_df17())
        yield "wronglen", {}, hx(df17(r.choice(ICAOS), g.me_ident()), 112)[:14]
        yield "zero-df11", {}, hx(df11(0, 5), 56)
        yield "zero-df17", {}, hx(df17(0, g.me_ident()), 112)
        yield "zero-ap56", {}, hx(short_ap(r.choice([0, 4, 5]), 0, r.getrandbits(27)), 56)
        yield "zero-ap112", {}, hx(long_ap(r.choice([16, 20, 21]), 0, r.getrandbits(27), r.getrandbits(56)), 112)
        yield "filtered", {"f": "17"}, g.f_short(r.choice([4, 5]))
        yield "df24", {}, hx(with_parity_ap((24 << 107) | r.getrandbits(83), 112, r.choice(ICAOS)), 112)
    for rep in range(2 * reps):
        for name, o, ctx in contexts():
            probes = [g.f_df17(), g.decorate(g.f_df17()), "%012X" % r.getrandbits(48), g.f_short(5)[:2] + "%012X" % r.getrandbits(48),
                      g.f_df17()[:14], g.f_df17()[14:], "%012X" % r.getrandbits(48) + g.f_df17(), g.f_df11(), ""]
            for j, pr in enumerate(probes):
                cases.append(H("C02-x%s-%d-%d" % (name, rep, j), dict(o), [seg(0, [ctx, pr]), seg(0, [g.f_df17()])]))
    return cases


def nibbles_of(line: bytes):
    ds = [pyspec.HEX[c] for c in line if c in pyspec.HEX]
    if len(ds) in (26, 40):
        ds = ds[12:]
    return "".join("%X" % d for d in ds)


def oracle(parts, outcome, obs):
    if parts[1] == "T":
        if outcome == "harness-error":
            return None
        if outcome != "ok":
            return "outcome %s (%s)" % (outcome, obs)
        d = dict(kv.split("=", 1) for kv in obs.split(";"))
        want = set()
        for s in parts[3].split(";"):
            t, rest = s.split(":", 1)
            data = bytes.fromhex(rest[1:]).replace(b"|", b"") if rest.startswith("!") else b"".join(bytes.fromhex(l) + b"\n" for l in rest.split(",") if l and l != ".")
            for ln in pyspec.file_lines(data):
                fr = pyspec.frame_of_line(ln)
                if fr and fr != "zero":
                    want.add("%06X" % fr[1])
        got = set(k for k in d["keys"].split(",") if k)
        if got != want:
            return "TCP session: table %s, the lines that are frames have addresses %s" % (sorted(got), sorted(want))
        return None
    if outcome.replace("+slow", "") != "ok":
        return "outcome %s" % outcome
    if parts[1] == "G":
        line = bytes.fromhex(parts[3]) if parts[3] != "." else b""
        if not pyspec.utf8_ok(line):
            return None
        fr = pyspec.frame_of_line(line)
        if fr is None:
            return None if obs == "msg=-" else "line %r taken as a frame: %s" % (line[:60], obs)
        want = "msg=" + nibbles_of(line)
        if not obs.startswith(want + " "):
            return "line %r: got %s, expected %s" % (line[:60], obs, want)
        df = fr[0] if fr != "zero" else None
        return None
    if parts[0].startswith("C02-x"):
        # each line is judged on its own digits: the rows present are exactly the addresses of the lines that are frames
        opts = pyspec.case_opts(parts)
        segs = pyspec.case_segments(parts)
        osegs = obs.split("#")
        want = set()
        for k, (t, lines) in enumerate(segs):
            for ln in lines:
                fr = pyspec.frame_of_line(ln)
                if fr and fr != "zero" and pyspec.passes_filter(opts, fr[0]):
                    want.add(fr[1])
            got = set(pyspec.rows_of(osegs[k]).keys()) if k < len(osegs) else None
            if got != want:
                return "segment %d: rows %s, but the lines that are frames have addresses %s" % (
                    k, sorted("%06X" % a for a in (got or [])), sorted("%06X" % a for a in want))
        return None
    # H: second segment holds only rejected lines -> table identical to the one after segment 1
    segs = pyspec.case_segments(parts)
    if all(pyspec.frame_of_line(l) is None for l in segs[1][1]):
        o = obs.split("#")
        if len(o) == 2:
            AGES = ("ts", "ct0", "ct1", "pt", "tt", "ht", "b5t")
            ra, rb = pyspec.rows_of(o[0]), pyspec.rows_of(o[1])
            if set(ra) != set(rb):
                return "lines that are not frames changed the set of aircraft: %s -> %s" % (sorted("%06X" % a for a in ra), sorted("%06X" % a for a in rb))
            for a in ra:
                ch = [f for f in ra[a] if f not in AGES and ra[a][f] != rb[a].get(f)]
                if ch:
                    return "lines that are not frames changed %s of %06X" % (ch, a)
    return None


CLAIM = {
    "text": "Theorems C02_hex_digit / C02_payload / C02_iff / C02_df_length / C02_decoration / C02_reject_inert (Coq, closed): for every byte string, get_message returns Some p exactly when p is the 14|28-digit payload (or the 26|40-digit one minus its first 12), its length agrees with its DF and the format's parity condition holds; it never panics; the whole reader step depends on the line only through its hex-digit sequence; a rejected line leaves table and counters unchanged. Tied to the code on every digit count 0..64, heavy decoration (incl. non-ASCII), both cases, timestamp prefixes, every DF against both lengths, corrupted parity.",
    "note": "Lines that are not valid UTF-8 are 'not text' and fall under C13. char::to_digit is modelled on bytes.",
    "technique": "Coq proof (iff characterisation through CRC = long division, RangeSpec) + differential runs with independent oracle",
}


def compare(parts, impl, model):
    if parts[1] != "T":
        return sqcmp.compare_case(parts[1], impl, model, FIELDS)
    import props.C18 as c18
    return c18.compare(parts, impl, model)
