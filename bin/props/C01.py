"""C01 -- no input line or option set can crash or wedge the decoder."""
import os
from sqgen import *
import pyspec

ID = "C01"
TARGETS = ["Properties/C01.vo"]
FIELDS = ["key"]
NEED_RELEASE = True
NEED_CLI = True
EXPLANATION = ("totality theorems for the whole line pipeline (every panic source the model represents) over all byte "
               "streams/options; correspondence on outcome class in dev (overflow checks on) and release builds: "
               "hostile streams through the reader thread and through the built CLI incl. the bundled recordings")
ASSUMPTIONS = ["allocation failure, stack depth and anything inside std/chrono/clap are exercised, not proved",
               "-u / -d values outside chrono's Duration::seconds range are outside the modelled option domain"]
TRUSTED = ["arithmetic in the model is exact (N/Z); absence of overflow in the Rust code is tied by running the dev "
           "profile (overflow checks on) against the exact model on field sweeps"]

SENT_ICAO = 0x123456


def sentinel():
    return hx(df17(SENT_ICAO, me_ident(4, 3, [ia5_code(c) for c in "SENTINEL"])), 112)


def hostile_lines(g, tier):
    r = g.r
    out = []
    # every DF against both lengths (random payload; parity not fixed up: most are rejected, DF 0..16 AP formats pass)
    for df in range(32):
        out.append("%014X" % ((df << 51) | r.getrandbits(51)))
        out.append("%028X" % ((df << 107) | r.getrandbits(107)))
    ic = lambda: r.choice(ICAOS)
    # altitude codes: below 0 ft, zero, Gillham, metric, max
    for n in list(range(0, 44)) + [2047, 1000]:
        out.append(g.f_short(4, ic(), ac13_from_alt25(n)))
        out.append(g.f_long(20, ic(), ac13_from_alt25(n), 0))
        out.append(g.f_df17(ic(), me_airborne_pos(r.randint(9, 18), ac12_from_alt25(n), r.randint(0, 1), r.getrandbits(17), r.getrandbits(17))))
    for ac in (0, 1, 0x1FFF, 0x0040, 0x1000, r.getrandbits(13), r.getrandbits(13) & ~0x50):
        out.append(g.f_short(4, ic(), ac))
        out.append(g.f_long(20, ic(), ac, r.getrandbits(56)))
    for ac in (0, 1, 0xFFF, r.getrandbits(12) & ~0x10):
        out.append(g.f_df17(ic(), me_airborne_pos(11, ac, 0, 0, 0)))
    # velocity: rate and component fields 0 / 1 / max, all subtypes
    for st in range(8):
        for vr in (0, 1, 2, 511):
            for v in (0, 1, 1023):
                out.append(g.f_df17(ic(), me_velocity(st, r.randint(0, 1), v, r.randint(0, 1), r.choice([0, 1, 1023, v]), 0, r.randint(0, 1), vr, r.randint(0, 1), r.choice([0, 127]))))
    # CPR extremes, all type codes
    for tc in range(32):
        for la, lo in ((0, 0), (131071, 131071), (0, 131071), (1, 1)):
            out.append(g.f_df17(ic(), (tc << 51) | (r.getrandbits(15) << 36) | (r.randint(0, 3) << 34) | (la << 17) | lo))
    # Comm-B of every register kind
    for _ in range(40 if tier == "quick" else 400):
        out.append(g.f_long(r.choice([20, 21]), ic(), None, g.mb_any()))
    out.append(g.f_long(20, ic(), 0, (1 << 56) - 1))
    out.append(g.f_long(21, ic(), 0, 0))
    for _ in range(30 if tier == "quick" else 300):
        out.append(g.any_frame(ic()))
    return out


def gen(seed, tier):
    g = Gen(seed * 1000003 + 1)
    r = g.r
    cases = []
    lines = hostile_lines(g, tier)
    optsets = [{}, {"U": 1}, {"R": 1}, {"U": 1, "R": 1}, {"U": 1, "R": 1, "c": 1, "f": "4+5+17+20+21"},
               {"d": 1, "u": 0, "c": 1}, {"i": "aAews", "o": "sAvd"}, {"i": "e", "o": "NEc", "U": 1}]
    n = 0
    # (a) each hostile line as the first frame of an aircraft and as an update of an existing row, sentinel after it
    chunk = 24
    for oi, o in enumerate(optsets):
        r.shuffle(lines)
        for i in range(0, len(lines), chunk):
            part = lines[i:i + chunk]
            body = []
            for x in part:
                body += [x, x]
            body.append(sentinel())
            cases.append(H("C01-h%d" % n, o, [seg(0, body)]))
            n += 1
        if tier == "quick" and oi >= 3:
            break
    # (b) junk: non-hex, non-UTF-8, very long lines, NULs, then the sentinel
    junk = [b"\xff\xfe\xfd", b"\x00" * 100, b"8D" * 40000, b"G" * 70000, b"\r\r\r", "✈".encode() * 30,
            b"8D40621D58C382", b"02E197B00179C3" * 2, b"@" + b"0" * 40 + b";", b"*;", b" " * 5000]
    junk += [g.text_line(off, ch, tail) for off in range(0, 141) for ch in ("é", "€", "😀") for tail in (0, 70)]
    for o in optsets[:4]:
        body = junk + [g.junk_line() for _ in range(20)] + [sentinel()]
        cases.append(H("C01-j%d" % n, o, [seg(0, body)]))
        n += 1
        cases.append(H("C01-b%d" % n, o, [blob(0, b"\n".join(x if isinstance(x, bytes) else x.encode() for x in body))]))
        n += 1
    # (b2) the input ENDS in an over-long line without a newline (every typical buffer size): end of file is still reached
    for k, size in enumerate([4095, 4096, 4097, 8192, 65536, 65537, 70000]):
        for fill in (b"A", b"z"):
            cases.append(H("C01-e%d" % n, optsets[k % 4], [blob(0, sentinel().encode() + b"\n" + fill * size)]))
            n += 1
    # (c) the CLI itself (exit status, stderr) on hostile files; both profiles are run by vcheck
    for o in ({"i": "aAews", "u": -1}, {"i": "Q", "u": 3, "U": 1, "R": 1, "c": 1}, {"i": "aAews", "u": -1, "l": 2, "R": 1}, {"i": "e", "u": -1, "l": 1, "U": 1}):
        part = r.sample(lines, 60) + [sentinel()]
        cases.append(("C01-c%d" % n, "C", opts_str(o), seg(0, part)))
        n += 1
    # (e) extreme option values (every i64 is a legal -d / -u): at least 12 applied lines so that the sweep runs
    for o in ({"d": 9223372036854775807}, {"d": -9223372036854775807}, {"d": 0}, {"u": 9223372036854775807, "i": "x"},
              {"u": -9223372036854775807, "i": "x"}, {"d": 9223372036854775807, "u": 9223372036854775807, "U": 1, "i": "e"},
              {"d": 1, "u": 0, "i": "x"}):
        body = [g.any_frame(r.choice(ICAOS)) for _ in range(30)] + [sentinel()]
        cases.append(H("C01-x%d" % n, o, [seg(0, body), seg(1500, body)]))
        n += 1
    # (f) Comm-B registers reach their decoders only on an existing row with the gate open: -R, or capability + BDS 1,7 advert.
    #     Every enumerated small field takes all its values (e.g. the BDS 4,0 target-altitude source 0..3 with its status bit).
    import props.C10 as c10
    for rep in range(4 if tier == "quick" else 40):
        for o in ({"R": 1}, {}, {"U": 1, "R": 1}, {"U": 1}):
            icao = r.choice(ICAOS)
            body = [g.f_df11(icao, ca=5), g.f_long(20, icao, None, bds17([9, 16, 24]))]
            for src in (None, 0, 1, 2, 3):
                for mode in (None, 0, 5, 7):
                    body.append(g.f_long(r.choice([20, 21]), icao, None,
                                         bds40(r.randint(1, 4095), r.randint(1, 4095), r.randint(1, 4095), 0, 0, src, mode)))
            for _ in range(25):
                kind, m = c10.plausible_regs(g)
                if r.random() < 0.3:
                    m = c10.spoil(g, kind, m)
                body.append(g.f_long(r.choice([20, 21]), icao, None, m))
            for _ in range(10):
                body.append(g.f_long(r.choice([20, 21]), icao, None, r.getrandbits(56) | r.choice([0, 1 << 55])))
            body.append(sentinel())
            cases.append(H("C01-m%d" % n, o, [seg(0, body)]))
            n += 1
    # (g) rendering rows of any age never panics: aircraft silent for seconds .. years (the expiry limit permitting), every
    #     column group; the renderer is reached through the guarded hook (kind D)
    import props.C14 as c14
    for k, ages in enumerate([[159000, 1000, 500], [160000, 90000], [3600000, 86400000], [10 ** 9, 10 ** 11], [2 ** 31 * 1000, 2 ** 33 * 1000]]):
        pool = r.sample(ICAOS, 2)
        lines = []
        for icao in pool:
            lines += c14.full_aircraft(g, icao, 0.9)
        segs = [seg(0, lines)]
        t = 0
        for a in ages:
            t += a
            segs.append(seg(t, [g.any_frame(pool[0])] if r.random() < 0.5 else []))
        cases.append(D("C01-g%d" % n, {"i": "aAews", "d": 9223372036854775807, "R": 1}, segs))
        n += 1
    # (n) observers that make the distance degenerate -- not a number, infinite, exponent notation, the exact antipode of a
    #     decoded position -- together with the distance sort keys: several aircraft with positions, a refresh after every
    #     frame.  The model's option parser knows plain decimals only, so these cases are judged by the oracle alone.
    import props.common as pc
    for k, obs_s in enumerate(["nan,nan", "NaN,0", "inf,-inf", "1e999,0", "1e2,1e2", "-30.75,33.75", "30.75,-146.25", "90,0", "-90,180", "0,0"]):
        pool = r.sample(ICAOS, 3)
        lines = []
        for icao, (la, lo) in zip(pool, [(30.75, -146.25), (-30.75, 33.75), (r.uniform(-80, 80), r.uniform(-170, 170))]):
            lines += pc.pair_frames(g, icao, la, lo)
        lines.append(sentinel())
        for ob in ("d", "D", "sd"):
            o = {"i": "e", "u": -1, "o": ob, "O": obs_s.encode().hex().upper()}
            cases.append(("C01-n%d%s" % (k, ob), "C", opts_str(o), seg(0, lines)))
    # (d) random histories with time steps (update paths, sweeps)
    for i in range(60 if tier == "quick" else 600):
        cases.append(g.random_history("C01-r%d" % i))
    return cases


def distribution(idx):
    return {"cases": len(idx), "kinds": {k: sum(1 for p in idx.values() if p[1] == k) for k in ("H", "C")}}


def oracle(parts, outcome, obs):
    oc = outcome.replace("+slow", "")
    if oc != "ok":
        return "implementation outcome '%s' (panic/abort/non-zero exit) %s" % (oc, obs[:200])
    if parts[1] == "H" and ("C01-h" in parts[0] or "C01-j" in parts[0] or "C01-b" in parts[0] or "C01-x" in parts[0] or "C01-m" in parts[0] or "C01-e" in parts[0]):
        opts = pyspec.case_opts(parts)
        if not pyspec.passes_filter(opts, 17) or int(opts.get("d", "60")) <= 0:
            return None
        last = obs.split("#")[-1]
        if "key=%06X" % SENT_ICAO not in last:
            return "the well-formed frame after the hostile lines was not processed (sentinel aircraft missing)"
    return None


def extra_checks(profile):
    """the bundled recordings through the CLI: exit status 0, no panic"""
    import subprocess, vcore
    exe = os.path.join(vcore.TARGET, profile, "squitterator")
    bad = []
    for f in sorted(os.listdir(os.path.join(vcore.REPO, "rec"))):
        p = os.path.join(vcore.REPO, "rec", f)
        try:
            r = subprocess.run([exe, "-s", p, "-i", "Q"], stdout=subprocess.DEVNULL, stderr=subprocess.PIPE, timeout=300)
        except subprocess.TimeoutExpired:
            bad.append(("rec/" + f, "timeout"))
            continue
        if r.returncode != 0 or b"panicked" in r.stderr:
            bad.append(("rec/" + f, "exit %d %s" % (r.returncode, r.stderr[-200:].decode("utf-8", "replace"))))
    return bad


CLAIM = {
    "text": "Theorems C01_reader_total / C01_cli_total / C01_lines_total / C01_progress / C01_frames_wellformed (Coq, closed under the global context): for every byte stream, table, option record and time the model of read_lines (and of everything printed) returns Ok -- no slice index, sub-slice, expect/unwrap or unsigned-subtraction panic is reachable -- and every line after any prefix is still processed. Tied to the code by running hostile streams (every DF against both lengths, altitude codes below 0 ft, rate/velocity fields 0, CPR extremes, all Comm-B registers, non-hex, non-UTF-8, 70 kB lines, the bundled recordings) through the reader thread and the built CLI in the dev profile (overflow checks on) and the release profile, with a sentinel frame after the hostile ones.",
    "note": "Partial in one respect: the theorem covers the panic sources the model represents; arithmetic is exact in the model, so absence of integer overflow in the Rust code is shown by the dev-profile runs, not by the theorem -- except for the one quantity that grows with the input, the -c counters, which C01_counters_cannot_overflow / C01_counter_capacity bound against their declared type (defect D14). std/chrono/clap internals, allocation and -u/-d values beyond chrono's range are outside the model.",
    "technique": "Coq totality proof over the res-monad model (all inputs, by structural lemmas per decoder) + dev/release differential runs incl. CLI and recordings",
}


def skip_case(parts, impl, model):
    """C01-n: degenerate observers -- outside the model's option parser (plain decimals); oracle only"""
    return parts[0].startswith("C01-n")
