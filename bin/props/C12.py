"""C12 -- rows live exactly as long as the aircraft is being heard."""
from sqgen import *
import pyspec

ID = "C12"
TARGETS = ["Properties/C12.vo"]
NEED_CLI = True
FIELDS = ["key", "ts", "sq", "ais", "alt"]
EXPLANATION = ("theorems: every applied frame sets the row's timestamp to now on both paths (age restarts at 0) and the row survives that step; "
               "a row younger than delete_after survives frames of other aircraft; at a sweep every stale row is removed; the sweep counter "
               "guarantees a sweep within 12 applied frames; a re-created row is the fresh row. Correspondence: schedules of frames and "
               "silences around the limit via timestamp shifting, every format as refresher, delete_after in {1,5,60,600}, +/-U")
ASSUMPTIONS = ["elapsed time is simulated by shifting the public time-stamp fields of all rows between reader runs; the sweep counter lives for one reader run",
               "chrono num_seconds truncates toward zero"]


SENT12 = 0x123456


def sentinel12(g):
    return g.f_df17(SENT12, me_ident(4, 3, [ia5_code(c) for c in "SENTINEL"]))


def skip_case(parts, impl, model):
    return parts[1] == "T"


def filler(g, n, pool):
    r = g.r
    return [g.any_frame(r.choice(pool)) for _ in range(n)]


def gen(seed, tier):
    g = Gen(seed * 1000003 + 12)
    r = g.r
    cases = []
    for i in range(120 if tier == "quick" else 1200):
        d = r.choice([1, 5, 60, 600])
        if i % 15 == 14:
            # extreme but legal limits: nothing can expire within the history
            d = r.choice([9223372036854775807, 10 ** 13, 10 ** 12, 2 ** 31, 2 ** 32])
        o = {"d": d}
        if r.random() < 0.5:
            o["U"] = 1
        pool = r.sample(ICAOS, r.randint(3, 5))
        target = pool[0]
        others = pool[1:]
        t = 0
        segs = [seg(t, [g.any_frame(target)] + filler(g, r.randint(0, 3), others))]
        for _ in range(r.randint(2, 6)):
            # silence of the target on either side of / exactly at the limit (times are multiples of 500 ms)
            dt = r.choice([d * 1000 - 1500, d * 1000 - 500, d * 1000, d * 1000 + 500, d * 1000 + 1500, 500, 2 * d * 1000]) if d <= 600 else r.choice([500, 60000, 3600000])
            t += max(0, dt)
            k = r.random()
            if k < 0.35:
                # a long run of other aircraft: at least one sweep
                segs.append(seg(t, filler(g, r.randint(12, 30), others)))
            elif k < 0.6:
                segs.append(seg(t, filler(g, r.randint(1, 11), others)))
            elif k < 0.85:
                # the target is heard again (any format), then others
                segs.append(seg(t, [g.any_frame(target)] + filler(g, r.randint(0, 20), others)))
            else:
                segs.append(seg(t, filler(g, r.randint(5, 25), others) + [g.any_frame(target)] + filler(g, r.randint(0, 14), others)))
        cases.append(H("C12-%d" % i, o, segs))
    # a silent aircraft's own frame is the one that triggers the sweep (the 12th applied frame of the run): the frame
    # refreshes the row BEFORE the sweep looks at it, so the row stays and keeps what it knew (callsign)
    for i in range(8 if tier == "quick" else 80):
        d = r.choice([1, 5, 60])
        pool = r.sample(ICAOS, 4)
        target, others = pool[0], pool[1:]
        o = {"d": d}
        if i % 2:
            o["U"] = 1
        k = 11      # (with 22 the sweep at the 12th frame would already have removed the stale row, rightly)
        refresher = r.choice([g.f_df11(target), g.f_short(4, target), g.f_long(r.choice([20, 21]), target), g.f_df17(target, g.me_velocity(1))])
        segs = [seg(0, [g.f_df17(target, me_ident(4, 3, [ia5_code(c) for c in "KEEPME12"]))]),
                seg(d * 1000 + r.choice([0, 500, 5000]), filler(g, k, others) + [refresher] + filler(g, r.randint(0, 5), others))]
        cases.append(H("C12-k%d" % i, o, segs))
    # the cadence does not depend on the size of the table: dozens of aircraft heard once, silence beyond the limit, then one
    # aircraft sending 12 frames in a fresh reader run -- only that one remains
    for i in range(4 if tier == "quick" else 30):
        nrows = r.choice([22, 30, 41, 64, 100])
        many = [(0x300000 + 7 * k + r.randint(0, 6)) for k in range(nrows)]
        b = r.choice(ICAOS)
        o = {"d": 5}
        if i % 2:
            o["U"] = 1
        segs = [seg(0, [g.f_df11(a) for a in many]), seg(10000, [g.f_df11(b) for _ in range(r.choice([12, 13, 23]))])]
        cases.append(H("C12-big%d" % i, o, segs))
    # real time on a TCP feed: 22 aircraft, 3 s of silence (--delete-after 1), then 11 frames of one aircraft on the same
    # connection: the sweep at the 23rd frame measures ages at THAT frame's arrival (judged by the oracle alone: the model
    # of the TCP session has no clock)
    many = [(0x310000 + 5 * k) for k in range(22)]
    b = 0x4B1234
    body = ("\n".join(g.f_df11(a) for a in many) + "\n||" + "\n".join(g.f_df11(b) for _ in range(11)) + "\n").encode()
    cases.append(("C12-tcp", "T", opts_str({"i": "x", "u": -1, "o": "x", "d": 1}), ";".join([blob(9, body), seg(0, [sentinel12(g)])])))
    # the sweep cadence with the display running (the CLI refreshing after every frame, or on its timer): with
    # --delete-after 0 (or negative) every row is stale at once, so the table shown at the end holds exactly the aircraft
    # heard after the last sweep -- the 12th applied frame and every 11th after it
    for i in range(8 if tier == "quick" else 80):
        pool = r.sample(ICAOS, r.randint(3, 6))
        lines = [g.any_frame(r.choice(pool)) for _ in range(r.randint(13, 60))]
        o = {"i": r.choice(["x", "e", "aAews"]), "u": r.choice([-1, -1, 0]), "o": "x", "d": r.choice([0, 0, -3])}
        if i % 2:
            o["U"] = 1
        cases.append(("C12-c%d" % i, "C", opts_str(o), seg(0, lines)))
    return cases


def oracle(parts, outcome, obs):
    if outcome.replace("+slow", "") != "ok":
        return "outcome %s" % outcome
    if parts[1] == "T":
        if outcome == "harness-error":
            return None
        d = dict(kv.split("=", 1) for kv in obs.split(";"))
        got = sorted(k for k in d["keys"].split(",") if k)
        want = sorted(["4B1234", "%06X" % SENT12])
        if got != want:
            return "TCP feed with 3 s of silence (--delete-after 1): table %s after the session, expected %s (the silent aircraft are removed at the sweep of the 23rd frame)" % (got, want)
        return None
    if parts[1] == "C":
        from props.common import frames_of, rows_of_frame
        applied = []
        for ln in pyspec.case_segments(parts)[0][1]:
            fr = pyspec.frame_of_line(ln)
            if fr and fr != "zero":
                applied.append(fr[1])
        # sweeps at applied frame 12, 23, 34, ... (counter > 10, reset to 1); the sweeping frame's own row goes too (age 0 >= limit)
        last_sweep = 0
        k = 12
        while k <= len(applied):
            last_sweep = k
            k += 11
        want = sorted(set("%06X" % a for a in applied[last_sweep:]))
        frames = frames_of(obs)
        if int(pyspec.case_opts(parts).get("u", "-1")) != -1:
            return None     # refresh on the timer: nothing need be printed within the run; the model comparison covers it
        if not frames:
            return "nothing printed"
        got = sorted(l[:6] for l in rows_of_frame(frames[-1]))
        if got != want:
            return "table at the end %s; with --delete-after <= 0 only the aircraft heard after the last sweep (applied frame %d of %d) remain: %s" % (got, last_sweep, len(applied), want)
        return None
    opts = pyspec.case_opts(parts)
    d = int(opts.get("d", "60"))
    segs = pyspec.case_segments(parts)
    osegs = obs.split("#")
    if parts[0].startswith("C12-k"):
        tgt = pyspec.frame_of_line(segs[0][1][0])[1]
        rows = pyspec.rows_of(osegs[-1]) if len(osegs) == 2 else {}
        if tgt not in rows:
            return "the aircraft whose own frame triggered the sweep is not in the table"
        if rows[tgt].get("ais") != '"KEEPME12"':
            return "the aircraft whose own frame triggered the sweep lost its callsign (%s): the row was re-created instead of refreshed" % rows[tgt].get("ais")
        return None
    last = {}        # icao -> time of last applied frame
    fails = []
    for k, (t, lines) in enumerate(segs):
        if k >= len(osegs):
            return fails + ["missing observation"]
        rows = pyspec.rows_of(osegs[k])
        heard_here = {}
        n_applied = 0
        for ln in lines:
            fr = pyspec.frame_of_line(ln)
            if fr and fr != "zero" and pyspec.passes_filter(opts, fr[0]):
                n_applied += 1
                heard_here[fr[1]] = n_applied
                last[fr[1]] = t
        for a, tl in last.items():
            age = (t - tl) // 1000
            if age < d:
                if a not in rows:
                    fails.append("segment %d: aircraft %06X heard %d s ago (< %d) is missing" % (k, a, age, d))
                elif int(rows[a]["ts"]) != age:
                    fails.append("segment %d: aircraft %06X last-contact age %s, expected %d" % (k, a, rows[a]["ts"], age))
            elif n_applied >= 12 and a not in heard_here and a in rows:
                fails.append("segment %d: aircraft %06X silent for %d s (>= %d) survived a sweep (%d frames)" % (k, a, age, d, n_applied))
        extra = set(rows) - set(last)
        if extra:
            fails.append("segment %d: rows for addresses never heard: %s" % (k, sorted(extra)))
        # drop what is certainly gone, so that a later frame is judged as a fresh start
        for a in list(last):
            if a not in rows:
                del last[a]
    return fails


CLAIM = {
    "text": "Theorems C12_refresh / C12_timestamp_squitter_path / C12_timestamp_downlink_path / C12_present / C12_removed / C12_sweep_exact / C12_cadence / C12_sweep_within_12 / C12_first_sweep_is_12th / C12_fresh / C12_bound (Coq, closed): for every option record, state, line and time, an applied frame of any format sets its row's timestamp to now on both update paths and the row is present afterwards; a row younger than delete_after whole seconds survives any frame of another aircraft; when the sweep runs every row at least delete_after seconds old is removed; the sweep counter forces a sweep within 12 applied frames; a frame for an address not in the table creates exactly the fresh row. Tied to the code by schedules of frames and silences on both sides of and exactly at the limit (timestamp shifting), all formats as the refreshing frame, delete_after in {1,5,60,600}, +/-U.",
    "note": "Time is data in the model (Z milliseconds); wall-clock jitter is kept out of the decision by using multiples of 500 ms. The sweep counter lives for one read_lines call.",
    "technique": "Coq proof by case analysis on one step + induction over line lists (timestamp, survival, sweep cadence); differential runs with simulated clock + oracle",
}
