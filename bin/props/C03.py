"""C03 -- every frame is attributed to exactly the address it encodes; rows are isolated."""
from sqgen import *
import pyspec

ID = "C03"
TARGETS = ["Properties/C03.vo"]
FIELDS = ["key", "icao"]
EXPLANATION = ("theorems: an applied line touches only the row of its address, one row per address for every history, zero "
               "address dropped; address recovery tied by exhaustive single-bit basis (payload x address) for the nine formats "
               "plus random frames against an independent CRC; isolation checked on interleavings of several aircraft")
ASSUMPTIONS = ["HashMap<u32,Plane> is modelled as an association list with unique keys (invariant proved)"]

AP = [0, 4, 5, 16, 20, 21]


def sqgen_ac13(r):
    """a 13-bit altitude code with M=0, Q=1 (25 ft steps)"""
    return (r.getrandbits(13) | 0x10) & ~0x40


def gen(seed, tier):
    g = Gen(seed * 1000003 + 3)
    r = g.r
    cases = []
    n = 0
    # address recovery: basis vectors
    for df in AP:
        long = df >= 16
        nb = 83 if long else 27
        for pb in range(nb + 1):
            payload = (1 << (pb - 1)) if pb else 0
            for ab in list(range(24)) if tier != "quick" or pb % 4 == 0 else [r.randrange(24)]:
                icao = 1 << ab
                if long:
                    f = long_ap(df, icao, payload >> 56, payload & ((1 << 56) - 1))
                    cases.append(G("C03-g%d" % n, hx(f, 112)))
                else:
                    cases.append(G("C03-g%d" % n, hx(short_ap(df, icao, payload), 56)))
                n += 1
    for df in (11, 17, 18):
        for ab in range(24):
            icao = 1 << ab
            f = hx(df11(icao, r.randint(0, 7)), 56) if df == 11 else hx(df17(icao, r.getrandbits(56), r.randint(0, 7), df), 112)
            cases.append(G("C03-g%d" % n, f))
            n += 1
    for i in range(2000 if tier == "quick" else 40000):
        f = g.any_frame(r.getrandbits(24))
        if r.random() < 0.1:
            f = g.corrupt(f)
        cases.append(G("C03-r%d" % i, g.decorate(f)))
    # frames whose data bits are a multiple of the generator: the CRC is 000000, the AP field reads the address itself
    for df in (0, 4, 5, 16, 20, 21, 11, 17, 18):
        for k in range(4 if tier == "quick" else 40):
            fhex, nb, a = crc_zero_frame(r, df)
            cases.append(G("C03-q%d-%d" % (df, k), fhex))
            if k == 0:
                cases.append(H("C03-qh%d" % df, {}, [seg(0, [fhex]), seg(0, [g.any_frame(a)])]))
    # lines whose length contradicts their format (two short replies glued, a long frame cut to 14 digits): not frames, no
    # address may be attributed
    for k in range(20 if tier == "quick" else 200):
        a = r.choice(ICAOS)
        glued = g.f_short(r.choice([0, 4, 5]), a) + g.f_short(r.choice([0, 4, 5]), a)
        cut = g.f_long(r.choice([16, 20, 21]), a)[:14]
        cases.append(G("C03-l%d" % k, r.choice([glued, cut, g.f_df17(a)[:14], g.f_df11(a) + g.f_df11(a)])))
    # a line that is not text (invalid UTF-8) between frames of different aircraft, in one reader run: every frame after it
    # is still attributed to its address
    for k in range(8 if tier == "quick" else 80):
        pool = r.sample(ICAOS, 4)
        lines = [g.any_frame(pool[0]), r.choice([b"\xff\xfe\x80", b"\xc3\x28", b"8D\xff4840D6"])] + [g.any_frame(x) for x in pool[1:]]
        cases.append(H("C03-xu%d" % k, {"U": 1} if k % 2 else {}, [seg(0, lines), seg(0, [g.any_frame(pool[0])])]))
    # zero address
    cases.append(G("C03-z0", hx(short_ap(4, 0, 12345), 56)))
    cases.append(G("C03-z1", hx(df17(0, 1 << 50), 112)))
    # isolation: one line per segment, several aircraft
    for i in range(150 if tier == "quick" else 1500):
        pool = r.sample(ICAOS, r.randint(2, 4))
        o = g.random_opts()
        o.pop("f", None)
        o.pop("d", None)
        segs = [seg(0, [g.any_frame(r.choice(pool))]) for _ in range(r.randint(2, 9))]
        cases.append(H("C03-h%d" % i, o, segs))
    # the same 32 data bits from different aircraft in direct succession (the same flight level or squawk heard from two
    # aircraft): each frame still belongs to the address its parity gives, in one reader run and as first frames
    for i in range(24 if tier == "quick" else 240):
        pool = r.sample(ICAOS, r.randint(2, 4))
        df = r.choice([0, 4, 5, 4, 5])
        f27 = r.getrandbits(27) if df == 0 else ((r.getrandbits(14) << 13) | (r.choice([sqgen_ac13(r), r.getrandbits(13)])))
        lines = [hx(short_ap(df, a, f27), 56) for a in pool]
        if r.random() < 0.5:
            lines = lines + lines[::-1]
        o = {"U": 1} if i % 2 else {}
        cases.append(H("C03-xs%d" % i, o, [seg(0, lines), seg(0, [g.any_frame(pool[0])])]))
    # isolation under extreme (legal) --delete-after values, with enough frames for the expiry sweep to run several times:
    # no row of another aircraft may vanish or change
    for i, d in enumerate([9223372036854775807, 10000000000000, 1000000000000, 8300000000000, 4294967296, -1 + 2 ** 31, 2 ** 31, 86400 * 365 * 1000]):
        for u in ((0, 1) if tier != "quick" else (i % 2,)):
            pool = r.sample(ICAOS, 4)
            o = {"d": d}
            if u:
                o["U"] = 1
            # the sweep counter is per reader run: each segment must itself hold more than 12 applied lines
            segs = [seg(0, [g.any_frame(r.choice(pool)) for _ in range(15)]) for _ in range(3)]
            cases.append(H("C03-x%d-%d" % (i, u), o, segs))
    # frames whose address is zero, of every format, between ordinary frames: dropped by the reader, no row 000000
    def zero_frame():
        return r.choice([hx(df17(0, g.me_ident()), 112), hx(df17(0, g.me_airpos()), 112), hx(df11(0, 5), 56),
                         hx(short_ap(r.choice([0, 4, 5]), 0, r.getrandbits(27)), 56),
                         hx(long_ap(r.choice([16, 20, 21]), 0, r.getrandbits(27), r.getrandbits(56)), 112),
                         hx(with_parity_pi((18 << 83) | (r.getrandbits(3) << 80) | r.getrandbits(56), 112), 112)])
    for i in range(60 if tier == "quick" else 600):
        pool = r.sample(ICAOS, r.randint(1, 3))
        o = {"U": 1} if i % 2 else {}
        if i % 3 == 0:
            o["R"] = 1
        segs = []
        for _ in range(r.randint(2, 8)):
            segs.append(seg(0, [zero_frame() if r.random() < 0.5 else g.any_frame(r.choice(pool))]))
        cases.append(H("C03-y%d" % i, o, segs))
    return cases


def oracle(parts, outcome, obs):
    if outcome.replace("+slow", "") != "ok":
        return "outcome %s" % outcome
    if parts[1] == "G":
        line = bytes.fromhex(parts[3]) if parts[3] != "." else b""
        fr = pyspec.frame_of_line(line)
        if fr is None:
            want = None
        elif fr == "zero":
            want = "icao=-"
        else:
            want = "icao=%06X" % fr[1]
        if want is None:
            return None if obs in ("msg=-", "notutf8") else "line taken as a frame: %s" % obs
        if not obs.endswith(want):
            return "address %s expected %s" % (obs.split(" ")[-1], want)
        return None
    if parts[0].startswith("C03-x"):
        # nothing can expire (all frames arrive within the same second, --delete-after is huge): every address heard so far
        # has its row after every segment
        heard = set()
        osegs = obs.split("#")
        for k, (t, lines) in enumerate(pyspec.case_segments(parts)):
            for ln in lines:
                fr = pyspec.frame_of_line(ln)
                if fr and fr != "zero":
                    heard.add(fr[1])
            got = set(pyspec.rows_of(osegs[k]).keys()) if k < len(osegs) else set()
            if got != heard:
                return "segment %d: rows %s, addresses heard %s" % (k, sorted("%06X" % a for a in got), sorted("%06X" % a for a in heard))
        return None
    # H: isolation between consecutive one-line segments
    segs = pyspec.case_segments(parts)
    osegs = obs.split("#")
    prev = {}
    for k, (t, lines) in enumerate(segs):
        if k >= len(osegs):
            return "missing segment"
        rows = pyspec.rows_of(osegs[k])
        fr = pyspec.frame_of_line(lines[0]) if lines else None
        touched = fr[1] if fr and fr != "zero" else None
        for a, row in prev.items():
            if a == touched:
                continue
            if a not in rows:
                return "row %06X vanished after a frame of %s" % (a, touched)
            if rows[a] != row:
                diff = [x for x in row if rows[a].get(x) != row[x]]
                return "row %06X changed (%s) by a frame of another aircraft" % (a, ",".join(diff))
        if touched is not None and touched not in rows:
            return "no row for %06X after its frame" % touched
        extra = set(rows) - set(prev) - ({touched} if touched is not None else set())
        if extra:
            return "unexpected new rows %s" % sorted(extra)
        prev = rows
    return None


CLAIM = {
    "text": "Theorems C03_isolation / C03_one_row_per_address / C03_zero_address_dropped (Coq, closed): for every state and line, an applied line leaves every other row exactly as it was (rows only vanish through the expiry sweep) and introduces no key but its own address; the table reachable by any history has one row per address; a zero address is never applied; OVER ALL HISTORIES every row of every reachable table shows exactly the address it is filed under, which is non-zero and below 2^24 (C03_row_identity_step / _run / _timed / _reachable). Address recovery (AA field / AP xor CRC-24) is tied to an independent polynomial-division CRC on the complete single-bit basis of payload x address for all nine formats plus random frames; C03_address states the recovery rule on the frame's bits (AA field / AP xor CRC-24, the CRC being proved equal to polynomial long division in C04).",
    "note": "HashMap is modelled as an association list; only order-independent observations are made.",
    "technique": "Coq proof by induction over histories (isolation, NoDup invariant) + differential runs with independent CRC oracle",
}
