"""C11 -- each parameter shows the latest value its own frames carried; no cross-talk."""
from sqgen import *
import pyspec

ID = "C11"
TARGETS = ["Properties/C11.vo"]
FIELDS = None          # the full row is compared with the model after every prefix
EXPLANATION = ("theorems: for every field of the row and every frame class, a frame that is not a carrier of the field leaves it unchanged, on both "
               "update paths (footprints proved per update function, carrier table written from the property); frames of other aircraft never "
               "touch a row (C03). Correspondence: full row vs model after EVERY prefix of histories over an alphabet of all supported formats for "
               "1-4 aircraft with time steps, +/-U +/-R; oracle: no cross-talk, idempotence of re-feeding a frame, latest value for altitude / "
               "squawk / callsign")
ASSUMPTIONS = ["on the default path a Comm-B reply (DF20/21 creating frame) writes the address field of its own row with the address it was filed under (Proofs/RowIdentity.v shows it equals the key)", "DF18 frames are decoded only with -U; the property names carriers by DF17 type codes, so DF18 is treated as 'may carry what DF17 carries'"]

MB_FIELDS = ["sela", "baro", "tas_", "roll", "tar", "tas", "b5t", "ias", "mach", "te", "temp", "wind", "turb", "hum", "pres", "cf", "cb", "tt", "ht"]
ALL = ["ca", "cat", "ais", "alt", "altg", "alts", "sq", "ss", "vr", "vrs", "cl0", "cl1", "co0", "co1", "cs", "lat", "lon", "dist", "gs", "gm",
       "trk", "trks", "hdg", "hdgs", "pt", "ver", "reg", "icao", "turn"] + MB_FIELDS
AGES = {"pt", "tt", "ht", "b5t", "ts", "ct0", "ct1"}


def ia5(c):
    return chr(64 + c) if 1 <= c <= 26 else (chr(c) if 48 <= c <= 57 else "")


def norm(f, v):
    """ages grow with time: only their presence is compared"""
    return ("-" if v == "-" else "set") if f in AGES else v


def carriers(df, tc, st, use_u):
    """fields a frame of this class may change (from the property text); everything else must stay"""
    c = set()
    if df in (4, 20):
        c |= {"alt", "alts"}
    if df in (5, 21):
        c |= {"sq"}
    if df == 11 or (df == 17 and use_u):
        c |= {"ca"}
    if df in (20, 21):
        c |= set(MB_FIELDS) | {"ais", "gs", "trk", "trks", "vr", "vrs", "hdg", "hdgs"}
    if df == 17 or (df == 18 and use_u):
        if 1 <= tc <= 4:
            c |= {"ais", "cat"}
        if 5 <= tc <= 18:
            c |= {"alt", "alts", "cl0", "cl1", "co0", "co1", "cs", "lat", "lon", "dist", "pt"}
        if 5 <= tc <= 8:
            c |= {"gm", "trk", "trks"}
        if 9 <= tc <= 18 or 20 <= tc <= 22:
            c |= {"ss"}
        if tc == 19:
            c |= {"vr", "vrs", "altg"}
            if st in (1, 2):
                c |= {"gs", "trk", "trks"}
            if st in (3, 4):
                c |= {"hdg", "hdgs", "alts"}
        if 20 <= tc <= 22:
            c |= {"altg"}
        if tc == 31:
            c |= {"ver"}
    return c


def gen(seed, tier):
    import props.C10 as c10
    g = Gen(seed * 1000003 + 11)
    r = g.r
    cases = []
    # Comm-B rich histories: capability, advert, then valid registers incl. ones that satisfy two registers' rules
    for i in range(40 if tier == "quick" else 400):
        icao = r.choice(ICAOS)
        o = {}
        if r.random() < 0.5:
            o["U"] = 1
        if r.random() < 0.3:
            o["R"] = 1
        # every capability value that opens the gate (4..7: 7 is sent while an alert / SPI / downlink request is pending)
        segs = [seg(0, [g.f_df11(icao, ca=r.choice([4, 5, 6, 7, 7]))]), seg(0, [g.f_df17(icao, g.me_velocity(1))]),
                seg(0, [g.f_long(20, icao, None, bds17([9, 16, 24]))]),
                seg(0, [g.f_long(r.choice([20, 21]), icao, None, bds20([r.randint(1, 26) for _ in range(8)]))])]
        for _ in range(r.randint(2, 6)):
            k = r.random()
            if k < 0.2:
                # weather report, then something that carries no weather: an empty MB field, a callsign, an ACAS report
                segs.append(seg(0, [g.f_long(r.choice([20, 21]), icao, None, bds44(r.randint(9, 15), r.randint(1, 250), r.randint(1, 511), r.randint(0, 1), r.randint(1, 230),
                                                                                     r.randint(1, 2047), r.randint(1, 3), r.randint(1, 63)))]))
                segs.append(seg(0, [g.f_long(r.choice([20, 21]), icao, None, r.choice([0, bds20([r.randint(1, 26) for _ in range(8)]), bds30(r.getrandbits(20))]))]))
                continue
            m = c10.ambiguous_50_60(g) if k < 0.4 else c10.clean_reg(g, r.choice(["40", "50", "60"]))
            segs.append(seg(0, [g.f_long(r.choice([20, 21]), icao, None, m)]))
        cases.append(H("C11-b%d" % i, o, segs))
    # an aircraft's own frame triggers the sweep after a silence beyond --delete-after: refreshed first, the row keeps every
    # parameter the frame does not carry (callsign, squawk, altitude ...)
    for i in range(8 if tier == "quick" else 80):
        pool = r.sample(ICAOS, 4)
        tgt = pool[0]
        d = r.choice([1, 5])
        o = {"d": d}
        if i % 2:
            o["U"] = 1
        know = [g.f_df17(tgt, me_ident(4, 3, [ia5_code(c) for c in "KEEPME12"])), g.f_short(5, tgt), g.f_short(4, tgt, (r.getrandbits(14) << 13) | 0x0C38 | 0x10)]
        refresher = r.choice([g.f_df11(tgt), g.f_df17(tgt, g.me_velocity(1)), g.f_long(20, tgt, None, 0)])
        segs = [seg(0, [x]) for x in know] + [seg(d * 1000 + 500, [g.f_df11(r.choice(pool[1:])) for _ in range(11)] + [refresher])]
        cases.append(H("C11-k%d" % i, o, segs))
    n = 220 if tier == "quick" else 2500
    for i in range(n):
        pool = r.sample(ICAOS, r.randint(1, 4))
        o = {}
        if r.random() < 0.5:
            o["U"] = 1
        if r.random() < 0.4:
            o["R"] = 1
        if r.random() < 0.3:
            o["O"] = b"48.5,11.2".hex().upper()
        t = 0
        segs = []
        last = None
        for _ in range(r.randint(3, 14) if i % 10 else r.randint(40, 120)):
            if last and r.random() < 0.15:
                f = last          # re-feed the frame just applied
            else:
                f = g.any_frame(r.choice(pool))
            last = f
            segs.append(seg(t, [f]))
            t += r.choice([0, 0, 0, 500, 1000, 4000, 10000])
        cases.append(H("C11-%d" % i, o, segs))
    return cases


def oracle(parts, outcome, obs):
    if outcome.replace("+slow", "") != "ok":
        return "outcome %s" % outcome
    opts = pyspec.case_opts(parts)
    use_u = opts.get("U") == "1"
    segs = pyspec.case_segments(parts)
    osegs = obs.split("#")
    if parts[0].startswith("C11-k"):
        tgt = pyspec.frame_of_line(segs[0][1][0])[1]
        before = pyspec.rows_of(osegs[len(segs) - 2]).get(tgt, {}) if len(osegs) == len(segs) else {}
        after = pyspec.rows_of(osegs[-1]).get(tgt) if len(osegs) == len(segs) else None
        if after is None:
            return "the aircraft whose own frame triggered the sweep is not in the table"
        lost = [f for f in ("ais", "sq", "cat") if after.get(f) != before.get(f)]
        if lost:
            return "the aircraft's own frame triggered the sweep: the row lost %s (re-created instead of refreshed)" % ", ".join("%s %s -> %s" % (f, before.get(f), after.get(f)) for f in lost)
        return None
    prev = {}
    prev_frame = None
    prev_t = None
    prev_existing = False
    fails = []
    cap_s, cap_l = {}, {}       # per aircraft: CA of the latest DF11 (+ DF17 on an existing row under -U) / of the latest DF11 or DF17
    for k, (t, lines) in enumerate(segs):
        if k >= len(osegs):
            return fails + ["missing observation"]
        rows = pyspec.rows_of(osegs[k])
        fr = pyspec.frame_of_line(lines[0]) if lines else None
        if fr and fr != "zero":
            df, icao, v, nb = fr
            tc = getbits(v, nb, 33, 37) if nb == 112 else 0
            st = getbits(v, nb, 38, 40) if nb == 112 else 0
            if icao in prev and icao in rows:
                allowed = carriers(df, tc, st, use_u)
                for f in ALL:
                    if f not in allowed and norm(f, rows[icao].get(f)) != norm(f, prev[icao].get(f)):
                        fails.append("segment %d: DF%d TC%d.%d frame changed %s (%s -> %s), which it does not carry" % (k, df, tc, st, f, prev[icao].get(f), rows[icao].get(f)))
                # a Comm-B reply whose MB field is positively something else -- empty, or identified by its first byte as a
                # BDS 2,0 / 3,0 report -- changes none of the OTHER registers' parameters (weather, selected altitude, ...)
                if df in (20, 21):
                    mbv = (v >> 24) & ((1 << 56) - 1)
                    own = None
                    if mbv == 0:
                        own = set()
                    elif mbv >> 48 == 0x20:
                        own = {"ais"}
                    elif mbv >> 48 == 0x30:
                        own = {"te"}
                    if own is not None:
                        ch = [f for f in MB_FIELDS if f not in own and norm(f, rows[icao].get(f)) != norm(f, prev[icao].get(f))]
                        if ch:
                            fails.append("segment %d: DF%d reply with %s MB field changed %s" % (k, df, "an empty" if mbv == 0 else "a BDS %X,0" % (mbv >> 52), ch))
                if prev_frame == lines[0] and prev_t == t and prev_existing:
                    ch = [f for f in rows[icao] if rows[icao][f] != prev[icao].get(f)]
                    if ch:
                        fails.append("segment %d: re-feeding the frame just applied changed %s" % (k, ch))
            # latest value: a carrier frame of altitude / squawk / callsign leaves exactly its decoded value
            # (Q=1 altitude codes only: the Gillham codes are C05's known finding)
            if icao in rows and pyspec.passes_filter(opts, df):
                existing = icao in prev
                got = rows[icao]
                if df in (4, 20) and (existing or df == 4):
                    code = getbits(v, nb, 20, 32)
                    if code & 0x40 == 0 and code & 0x10:
                        kind, val = pyspec.ac13_altitude(code)
                        if kind == "ft" and got.get("alt") != str(val):
                            fails.append("segment %d: DF%d altitude code %d shows %s, latest carrier says %d" % (k, df, code, got.get("alt"), val))
                        if kind == "none" and got.get("alt") not in ("-", prev.get(icao, {}).get("alt", "-")):
                            fails.append("segment %d: DF%d altitude code %d carries no altitude (below 0 ft), the row shows %s (neither blank nor the previous value)" % (k, df, code, got.get("alt")))
                if df == 17 and 9 <= tc <= 18:
                    code = getbits(v, nb, 41, 52)
                    if code & 0x10:
                        kind, val = pyspec.ac12_altitude(code)
                        if kind == "ft" and got.get("alt") != str(val):
                            fails.append("segment %d: DF17 TC%d altitude code %d shows %s, latest carrier says %d" % (k, tc, code, got.get("alt"), val))
                if df == 17 and 5 <= tc <= 8 and got.get("alt") != "-":
                    fails.append("segment %d: surface position squitter (TC%d) leaves altitude %s, the property says it blanks it" % (k, tc, got.get("alt")))
                gate_by_cap = cap_s.get(icao, 0) >= 4 and cap_l.get(icao, 0) >= 4
                if df in (20, 21) and existing and (opts.get("R") == "1" or gate_by_cap) and getbits(v, nb, 33, 40) == 0x20:
                    cs = '"%s"' % "".join(ia5(getbits(v, nb, 41 + 6 * i, 46 + 6 * i)) for i in range(8))
                    if got.get("ais") != cs:
                        fails.append("segment %d: BDS 2,0 reply with the Comm-B gate open shows callsign %s, latest carrier says %s" % (k, got.get("ais"), cs))
                if df in (5, 21) and (existing or df == 5):
                    want = "%d" % pyspec.id13_squawk(getbits(v, nb, 20, 32))
                    if got.get("sq") != want:
                        fails.append("segment %d: DF%d identity shows %s, latest carrier says %s" % (k, df, got.get("sq"), want))
                if df == 17 and 1 <= tc <= 4:
                    cs = '"%s"' % "".join(ia5(getbits(v, nb, 41 + 6 * i, 46 + 6 * i)) for i in range(8))
                    if got.get("ais") != cs:
                        fails.append("segment %d: TC%d callsign shows %s, latest carrier says %s" % (k, tc, got.get("ais"), cs))
            # frames of one aircraft never touch another row
            for a in prev:
                if a != icao and a in rows:
                    ch = [f for f in rows[a] if f not in ("ts", "ct0", "ct1", "pt", "tt", "ht", "b5t") and rows[a][f] != prev[a].get(f)]
                    if ch:
                        fails.append("segment %d: a frame of %06X changed %s of %06X" % (k, icao, ch, a))
        if fr and fr != "zero":
            if fr[0] == 11 or (fr[0] == 17 and use_u and fr[1] in prev):
                cap_s[fr[1]] = getbits(fr[2], fr[3], 6, 8)
            if fr[0] in (11, 17):
                cap_l[fr[1]] = getbits(fr[2], fr[3], 6, 8)
        prev_existing = bool(fr and fr != "zero" and fr[1] in prev)
        prev_frame = lines[0] if lines else None
        prev_t = t
        prev = rows
    return fails


CLAIM = {
    "text": "Theorems C11_* (Coq, closed): footprints -- for every frame, each update path changes at most the fields listed for the frame's class (DF, type code, subtype), so a frame of a format that does not carry a parameter never changes it (C11_footprint_squitter_path, C11_footprint_downlink_path; per-parameter instances in C05/C06/C07/C09/C10); the reader step replaces exactly the row of the frame's address by the result of exactly one update function (C11_step_existing_row, C11_step_new_row; other rows: C03_isolation); and OVER ALL HISTORIES the latest carrier frame wins: for any projection of the row whose one-step facts hold, every trace of reader steps -- any number of reader runs, any times -- shows at each address the value of a reference fold over the same lines (C11_latest_wins_generic, C11_latest_carrier_wins), instantiated for the squawk (C06_latest_wins) and the callsign (C11_callsign_latest). The carrier table written from the property text (Spec/Carriers.v) is proved to coincide with the squitter-path footprint (C11_carrier_table_exact) and a frame that is not a carrier of a field leaves it unchanged on both paths (C11_no_crosstalk_squitter_path / _short / _ext / _downlink_path / _downlink_message); re-feeding the same decoded frame at the same instant changes nothing on the default path (C11_refeed_idempotent). Tied to the code by comparing the FULL row with the model after every prefix of histories over all supported formats (incl. registers that satisfy two registers' rules) for 1-4 aircraft with time steps, +/-U +/-R, and by an oracle for cross-talk, idempotence of re-feeding a frame and rows of other aircraft. Row creation and bookkeeping through the whole pipeline: a creating DF20/21 contributes the address only (C11_comm_b_new_row), the recorded capability is the CA field of DF11 (and of DF17 under -U) (C11_capability_df11/_df17), every applied frame refreshes the time stamp and the last-format marker is the frame's format except DF18/19 on the default path (C11_stamps_existing/_new, with a refutation witness of the unrestricted statement in Proofs/EndToEnd2.v).",
    "note": "The history theorem is instantiated for squawk and callsign; for the other parameters the per-step theorems (C05, C08, C09, C10) plus the generic history theorem apply, and the full-row correspondence after every prefix covers them; idempotence is proved for the default path (update_from_downlink) and checked by the oracle on the -U path.",
    "technique": "Coq proof: per-function footprints composed over both update paths + carrier table; per-prefix full-row differential runs + oracle",
}
