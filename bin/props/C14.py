"""C14 -- printed rows render the table faithfully under their column headers."""
from sqgen import *
import pyspec
from props.common import *

ID = "C14"
TARGETS = ["Properties/C14.vo"]
FIELDS = None
NEED_CLI = True
EXPLANATION = ("theorems: header and separator have the same width for every flag set; whenever every value fits its column a row has exactly "
               "that width (all rows, all 32 flag sets); unknown values render as blanks of the same width; groups contribute their columns to "
               "header and row iff their letter is given. Correspondence: CLI stdout vs the model's rendering (every frame, every line) on "
               "states that fill every column and leave each blank, extreme and negative values, all 32 flag combinations")
ASSUMPTIONS = ["display width is 1 for every character the program emits (incl. super/subscript source markers)",
               "Rust format! width/precision semantics are modelled (pad_left/pad_right/zero_pad/fmt_fixed round-half-even) and tied by execution"]


def full_aircraft(g, icao, p=0.8):
    r = g.r
    L = []

    def maybe(x):
        if r.random() < p:
            L.append(x)
    maybe(g.f_df11(icao, ca=r.choice([5, 5, 4, 0])))
    maybe(g.f_long(20, icao, ac13_from_alt25(r.randint(40, 2047)), bds17([9, 13, 16, 24])))
    maybe(g.f_short(5, icao, (r.getrandbits(14) << 13) | r.getrandbits(13)))
    maybe(g.f_short(4, icao, ac13_from_alt25(r.choice([40, 41, 2047, r.randint(40, 2047)]))))
    maybe(g.f_df17(icao, me_ident(r.randint(1, 4), r.randint(0, 7), [r.choice([r.randint(1, 26), 48 + r.randint(0, 9), 32]) for _ in range(8)])))
    lat, lon = r.choice([(r.uniform(-86, 86), r.uniform(-179.9, 179.9)), (-0.001, -0.001), (89.0, 179.99), (-33.9, -179.99)])
    if r.random() < p:
        L.extend(pair_frames(g, icao, lat, lon))
    # values are kept within what the columns can hold (GSP 3 digits, VRATE 5 characters): that is the
    # property's "every value fits" premise; extremes are the largest values that still fit
    st = r.choice([1, 2])
    lim = 700 if st == 1 else 170
    maybe(g.f_df17(icao, me_velocity(st, r.randint(0, 1), r.choice([1, lim, r.randint(1, lim)]), r.randint(0, 1),
                                     r.choice([1, lim, r.randint(1, lim)]), 0, r.randint(0, 1), r.choice([1, 2, 150, r.randint(1, 150)]),
                                     0, r.randint(0, 127))))
    maybe(g.f_df17(icao, me_velocity(r.choice([3, 4]), 0, r.randint(0, 999), 0, r.randint(0, 1023), 0, 1, r.randint(1, 150))))
    maybe(g.f_df17(icao, (r.randint(20, 22) << 51) | r.getrandbits(51)))
    maybe(g.f_df17(icao, (31 << 51) | r.getrandbits(51)))
    maybe(g.f_long(r.choice([20, 21]), icao, None, bds40(r.randint(1, 4095), r.randint(1, 4095), r.randint(1, 4095), 0, 0, r.choice([None, 1, 2, 3]))))
    gs = r.randint(1, 300)
    maybe(g.f_long(r.choice([20, 21]), icao, None, bds50(r.choice([(0, r.randint(1, 280)), (1, r.randint(230, 511))]), (r.randint(0, 1), r.randint(1, 1023)), gs,
                                                         (r.randint(0, 1), r.randint(1, 511)), max(1, min(250, gs + r.randint(-50, 50))))))
    maybe(g.f_long(r.choice([20, 21]), icao, None, bds60((r.randint(0, 1), r.randint(1, 1023)), r.randint(1, 500), r.randint(1, 250),
                                                         r.choice([(0, r.randint(1, 187)), (1, r.randint(325, 511))]), r.choice([(0, r.randint(1, 187)), (1, r.randint(325, 511))]))))
    maybe(g.f_long(r.choice([20, 21]), icao, None, bds44(r.randint(9, 15), r.randint(1, 250), r.randint(1, 511), r.randint(0, 1), r.randint(1, 230),
                                                         r.randint(1, 2047), r.randint(1, 3), r.randint(1, 63))))
    maybe(g.f_long(r.choice([20, 21]), icao, None, bds30(r.getrandbits(48))))
    maybe(g.f_long(r.choice([20, 21]), icao, None, bds20([r.randint(1, 26) for _ in range(8)])))
    maybe(g.f_df17(icao, g.me_surfpos()))
    return L


def gen(seed, tier):
    g = Gen(seed * 1000003 + 14)
    r = g.r
    cases = []
    n = 0
    for mask in range(32):
        flags = "".join(c for i, c in enumerate("aAews") if mask >> i & 1) or "x"
        for rep in range(2 if tier == "quick" else 12):
            pool = r.sample(ICAOS, r.randint(1, 3))
            lines = []
            for icao in pool:
                lines += full_aircraft(g, icao, r.choice([0.95, 0.7, 0.3]))
            if r.random() < 0.7:
                r.shuffle(lines)
            o = {"i": flags, "u": -1, "o": "x"}
            if len(flags) > 1 and rep % 2:
                # the same letters spread over several -i options (-i a -i s ...), in any order
                ls = list(flags)
                r.shuffle(ls)
                cut = sorted(r.sample(range(1, len(ls)), r.randint(1, len(ls) - 1)))
                o["i"] = "+".join("".join(ls[a:b]) for a, b in zip([0] + cut, cut + [len(ls)]))
            if r.random() < 0.6:
                o["R"] = 1
            if r.random() < 0.5:
                o["U"] = 1
            if r.random() < 0.3:
                o["c"] = 1
            o["l"] = n % 3
            cases.append(("C14-%d" % n, "C", opts_str(o), seg(0, lines)))
            n += 1
    # a letter given more than once (inside one -i value or across several -i options) still selects its group once
    dups = ["ww", "aa", "AA", "ee", "ss", "a+a", "wa+ws", "aAews+e", "e+e+e", "sAs", "wew", "A+A+s", "aAews+aAews", "xx"]
    for k, flags in enumerate(dups if tier == "quick" else dups * 4):
        pool = r.sample(ICAOS, r.randint(1, 3))
        lines = []
        for icao in pool:
            lines += full_aircraft(g, icao, 0.9)
        o = {"i": flags, "u": -1, "o": "x"}
        if k % 2:
            o["R"] = 1
        cases.append(("C14-dup%d" % k, "C", opts_str(o), seg(0, lines)))
    # no usable observer position (-O that does not parse): the distance cell stays blank also for a row with a position
    for k, obsv in enumerate(["nowhere", "x;y", "52.1", ""]):
        icao = r.choice(ICAOS)
        lines = [g.f_df17(icao, g.me_ident())] + pair_frames(g, icao, r.uniform(-60, 60), r.uniform(-150, 150)) + [g.f_df11(icao)]
        cases.append(("C14-noobs%d!nomodel" % k, "C", opts_str({"i": r.choice(["aAews", "x", "s"]), "u": -1, "o": "x", "O": obsv.encode().hex().upper() or "20"}),
                      seg(0, lines)))
    # rows at every AGE: the history is replayed with a simulated clock (kind D) and every row is observed as the table line
    # the program prints at that moment -- last-contact column, the hex age digits of position / track / heading (PTH),
    # rows that have not been heard for seconds, minutes, hours
    ages = [500, 9500, 10000, 59000, 99000, 99500]
    for mask in range(32):
        flags = "".join(c for i, c in enumerate("aAews") if mask >> i & 1) or "x"
        if tier == "quick" and mask % 4 != 3 and mask not in (0, 16):
            continue
        pool = r.sample(ICAOS, 2)
        lines = []
        for icao in pool:
            lines += full_aircraft(g, icao, 0.9)
        segs = [seg(0, lines)]
        t = 0
        for a in r.sample(ages, 3):
            t += a
            # refreshers whose values fit their columns (the property's premise): all-call replies, identity replies
            segs.append(seg(t, [r.choice([g.f_df11(pool[0]), g.f_short(5, pool[0])])] if r.random() < 0.5 else []))
        o = {"i": flags, "d": 100000}
        if r.random() < 0.6:
            o["R"] = 1
        if r.random() < 0.5:
            o["U"] = 1
        cases.append(D("C14-d%d" % n, o, segs))
        n += 1
    # every (type code, category) pair of the identification squitter: wake class letter or blank
    for rep in range(1 if tier == "quick" else 6):
        combos = [(tc, ca) for tc in range(1, 5) for ca in range(8)]
        r.shuffle(combos)
        for part in range(0, 32, 8):
            lines = []
            for (tc, ca), icao in zip(combos[part:part + 8], r.sample(ICAOS, 8)):
                lines.append(g.f_df17(icao, me_ident(tc, ca, [r.randint(1, 26) for _ in range(8)])))
                if r.random() < 0.5:
                    lines.append(g.f_short(4, icao, ac13_from_alt25(r.randint(40, 2047))))
            o = {"i": r.choice(["e", "aAews", "x"]), "u": -1, "o": "x"}
            if r.random() < 0.5:
                o["U"] = 1
            cases.append(("C14-w%d" % n, "C", opts_str(o), seg(0, lines)))
            n += 1
    return cases



def overflow_excess(line, cols):
    """number of characters by which numeric values that do not fit their columns (the case the property excludes, e.g. an
    indicated air speed of 1005 kt in a three-character column) widen the row: a right-aligned number that is too long
    pushes everything after it to the right, so its column is followed by a digit instead of a blank or a source mark"""
    off = 0
    for name, (st, w) in sorted(cols.items(), key=lambda x: x[1][0]):
        if name in ("ICAO", "RG", "W", "CALLSIGN", "S", "SQWK"):
            continue
        while st + off + w < len(line) and line[st + off + w].isascii() and line[st + off + w].isdigit() \
                and not line[st + off].isspace() and line[st + off:st + off + w].lstrip("-").replace(".", "").isdigit():
            off += 1
    return off


def oracle(parts, outcome, obs):
    if parts[1] == "D":
        if outcome.replace("+slow", "") != "ok":
            return "outcome %s" % outcome
        opts = pyspec.case_opts(parts)
        flags = "".join(opts.get("i", "").split("+"))
        cols, width = columns(flags)
        for k, sg in enumerate(obs.split("#")):
            for a, row in pyspec.rows_of(sg).items():
                line = row.get("disp", "").replace("_", " ")
                lc = line.rsplit(" ", 1)[-1]
                over = max(0, len(lc) - 2)          # a last-contact age of 100 s or more does not fit its column
                if len(line) != width + over and not ("ICAO" in line[7:12]) and len(line) != width + over + overflow_excess(line, cols):
                    return "segment %d: row of %06X has width %d, the header has %d: %r" % (k, a, len(line), width, line)
        return None
    if outcome != "ok":
        return "outcome %s" % outcome
    opts = pyspec.case_opts(parts)
    flags = "".join(opts.get("i", "").split("+"))
    cols, width = columns(flags)
    want_header = " ".join(n.rjust(w) for g, n, w in header_cols() if not g or GROUP_LETTER[g] in flags) + " LC"
    # contents of the last frame: wake class, callsign and squawk cells against the frames of the input
    all_frames = frames_of(obs)
    if all_frames and len(all_frames[-1]) >= 3 and all_frames[-1][0] == want_header:
        bad = check_last_frame_cells(parts, obs, flags)
        if bad:
            return bad
    for k, fr in enumerate(all_frames):
        if len(fr) < 3:
            return "frame %d too short" % k
        if fr[0] != want_header:
            return "frame %d header %r, expected the columns of groups '%s': %r" % (k, fr[0], flags, want_header)
        if len(fr[1]) != len(fr[0]) or set(fr[1]) - set("- "):
            return "frame %d separator width %d, header width %d" % (k, len(fr[1]), len(fr[0]))
        for line in rows_of_frame(fr):
            if len(line) != len(fr[0]):
                # a value that does not fit is the excluded case: LC >= 100 s or 5-letter country codes
                if cell(line, cols, "RG").strip() in ("IC",) or "ICAO" in line[7:12]:
                    continue
                if len(line) == len(fr[0]) + overflow_excess(line, cols) + max(0, len(line.rsplit(" ", 1)[-1]) - 2):
                    continue
                return "frame %d row width %d, header width %d: %r" % (k, len(line), len(fr[0]), line)
            # every column: numbers right-aligned, text left-aligned; blanks stay blanks
            for name in ("SQWK", "ALT B", "VRATE", "TRK", "HDG", "GSP", "LATITUDE", "LONGITUDE", "LC"):
                c = cell(line, cols, name)
                if c.strip() and c[-1] == " ":
                    return "frame %d column %s not right-aligned: %r" % (k, name, c)
            # blank when unknown: a cell whose value part is blank carries no source mark either (the mark sits in the
            # separator position after TRK, HDG, ALT B, VRATE ...)
            for name in ("TRK", "HDG", "VRATE", "ALT B"):
                st, w = cols[name]
                if st + w < len(line) and not line[st:st + w].strip() and line[st + w] != " ":
                    return "frame %d column %s is blank but carries the mark %r" % (k, name, line[st + w])
            if parts[0].startswith("C14-noobs") and cell(line, cols, "DIST").strip():
                return "frame %d: no observer position was given (-O does not parse) but the distance cell reads %r" % (k, cell(line, cols, "DIST"))
            c = cell(line, cols, "CALLSIGN")
            if c.strip() and c[0] == " ":
                return "frame %d callsign not left-aligned: %r" % (k, c)
            try:
                int(line[:6], 16)
            except ValueError:
                return "frame %d row does not start with the address: %r" % (k, line[:8])
    return None


CLAIM = {
    "text": "Theorems C14_* (Coq, closed): for every option record the header and the separator have the same display width; for every row whose values fit their columns the rendered line has exactly that width, under all 32 -i flag sets; the rendered row is the concatenation of 33 cells that correspond one-to-one and in order to the header columns (same group, width = column width + separator), so every cell starts exactly under its column; each cell is all blanks under a stated unknown-value condition and a row with nothing known is the address followed by blanks at full width; header and rows consist of the base columns plus exactly the groups whose letter (A, s, a, w, e) is given; all lines of a printed frame have identical width. The column list is regenerated from header.rs on every run; the row renderer is a hand model of simple_display.rs tied to the code by comparing every line of every frame printed by the built CLI with the model rendering, on states that fill every column and leave each blank, with extreme fitting and negative values, for all 32 flag sets. CONTENT of the cells (Proofs/CellContents.v): the number printers emit exactly the decimal digits of the value, no leading zero, sign first (C14_number_*, C14_signed_number, C14_hex_digit); the SQWK cell is four digits with the code's value or four blanks; the W cell is the specification's wake letter; ALT B / VRATE / TRK / HDG are the right-aligned value plus source mark, and entirely blank (mark included) when unknown; the PTH characters are the hex digit of (age/10 s) mod 16; LC is the two-digit age below 100 s; the country is never truncated; LATITUDE/LONGITUDE digits are the value rounded half-to-even at 1e-5 (C14_*_cell, C14_age_digits, C14_position_cells). Rows are also rendered at simulated ages (kind D, guarded hook) and compared character for character.",
    "note": "That each cell shows the field its header names is by construction of the cell list (which is what the theorem speaks about) plus the character-for-character correspondence with CLI output; character display width is taken as 1.",
    "technique": "Coq proof on the rendering model (cell-width lemmas, 32 flag sets) over the regenerated header table; CLI differential rendering + layout oracle",
}


def skip_case(parts, impl, model):
    """C14-noobs: an -O value that does not parse is outside the model's option parser (plain decimals); oracle only"""
    return parts[0].split("~")[0].endswith("!nomodel")
