"""C18 -- TCP feed interruptions never stop decoding or lose the table."""
from sqgen import *
import pyspec
import sqcmp

ID = "C18"
TARGETS = ["Properties/C18.vo"]
FIELDS = None
NEED_CLI = True
EXPLANATION = ("theorems on the connection loop's LOGIC: one table is threaded through all connections, each connection is a total read_lines "
               "call over what it delivered, so rows learned before an interruption persist and the loop cannot stop. Correspondence: the built "
               "CLI against a scripted loopback peer (refuse, accept+close, frames+close, partial line+RST, junk bytes, then a healthy "
               "connection with a sentinel aircraft): process alive, retry after about 5 s, final table vs model")
ASSUMPTIONS = ["PARTIAL: sockets, kernel RST timing and the blocking behaviour of connect are not in the model; they are only exercised",
               "bytes sent before a reset are assumed delivered when the peer waits 0.4 s before resetting"]

SENT = 0x123456


def sentinel(g):
    return g.f_df17(SENT, me_ident(4, 3, [ia5_code(c) for c in "SENTINEL"]))


def gen(seed, tier):
    g = Gen(seed * 1000003 + 18)
    r = g.r
    cases = []
    scripts = [[3, 0], [1, 0], [2, 0], [4, 0], [5, 0], [1, 3, 0], [2, 2, 0], [12, 0]]
    if tier != "quick":
        scripts += [[a, b, 0] for a in (1, 2, 3, 4, 5) for b in (1, 2, 4, 5)] + [[1, 2, 3, 1, 0], [3, 3, 0]]
    for i, sc in enumerate(scripts):
        pool = r.sample([x for x in ICAOS if x != SENT], 3)
        segs = []
        for ev in sc:
            if ev in (3, 5, 12):
                segs.append("%d:" % ev)
            elif ev == 4:
                segs.append(blob(4, bytes(r.getrandbits(8) for _ in range(200)).replace(b"\n", b" ") + b"\n" + g.junk_line().replace(b"\n", b"") + b"\n"))
            elif ev == 2:
                lines = [g.any_frame(r.choice(pool)) for _ in range(r.randint(1, 5))]
                part = g.any_frame(r.choice(pool))[:r.randint(3, 13)]
                segs.append(blob(2, ("\n".join(lines) + "\n" + part).encode()))
            elif ev == 1:
                lines = [g.any_frame(r.choice(pool)) for _ in range(r.randint(1, 6))]
                segs.append(seg(1, lines))
            else:
                lines = [g.any_frame(r.choice(pool)) for _ in range(r.randint(0, 3))] + [sentinel(g)]
                segs.append(seg(0, lines))
        cases.append(("C18-%d" % i, "T", opts_str({"i": "x", "u": -1, "o": "x", "l": i % 3}), ";".join(segs)))
    # a connection that has been up for longer than the retry pause when it is reset in the middle of a line
    pool = r.sample([x for x in ICAOS if x != SENT], 3)
    lines = [g.any_frame(r.choice(pool)) for _ in range(3)]
    part = g.any_frame(r.choice(pool))[:9]
    cases.append(("C18-long", "T", opts_str({"i": "x", "u": -1, "o": "x"}),
                  ";".join([blob(7, ("\n".join(lines) + "\n" + part).encode()), seg(0, [sentinel(g)])])))
    # the same interruptions with the downlink log (-D) switched on: every connection writes to it
    for i, sc in enumerate([[1, 0], [2, 5, 0]]):
        pool = r.sample([x for x in ICAOS if x != SENT], 3)
        segs = []
        for ev in sc:
            if ev == 5:
                segs.append("5:")
            elif ev == 2:
                segs.append(blob(2, ("\n".join(g.any_frame(r.choice(pool)) for _ in range(3)) + "\n8D4").encode()))
            elif ev == 1:
                segs.append(seg(1, [g.any_frame(r.choice(pool)) for _ in range(3)]))
            else:
                segs.append(seg(0, [g.any_frame(r.choice(pool)), sentinel(g)]))
        cases.append(("C18-D%d" % i, "T", opts_str({"i": "x", "u": -1, "o": "x", "D": 1}), ";".join(segs)))
    # a timestamped feed ("@<12 digits><frame>;"), closed by the peer inside a line -- inside the timestamp, inside the frame
    for i, cut in enumerate([1, 5, 12, 13, 20, 30]):
        pool = r.sample([x for x in ICAOS if x != SENT], 2)
        full = "\n".join("@%012X%s;" % (r.getrandbits(48), g.f_df17(a)) for a in pool) + "\n"
        part = ("@%012X%s;" % (r.getrandbits(48), g.f_df17(pool[0])))[:cut]
        cases.append(("C18-at%d" % i, "T", opts_str({"i": "x", "u": -1, "o": "x"}),
                      ";".join([blob(1, (full + part).encode()), seg(0, [sentinel(g)])])))
    # the peer closes in the middle of a line whose fragment has the length of a short frame: 14 digits of a long reply, 26 with
    # a timestamp, and neighbours
    for i, (fmt, cut) in enumerate([(20, 14), (21, 14), (16, 14), (17, 14), (20, 13), (20, 15), (21, 27)]):
        pool = r.sample([x for x in ICAOS if x != SENT], 2)
        long_f = g.f_long(fmt, pool[0]) if fmt != 17 else g.f_df17(pool[0])
        body = (g.f_df17(pool[1]) + "\n" + long_f[:cut]).encode()
        cases.append(("C18-cut%d" % i, "T", opts_str({"i": "x", "u": -1, "o": "x"}), ";".join([blob(1, body), seg(0, [sentinel(g)])])))
    body = (g.f_df17(pool[1]) + "\n@%012X" % r.getrandbits(48) + g.f_long(20, pool[0])[:14]).encode()
    cases.append(("C18-cut-ts", "T", opts_str({"i": "x", "u": -1, "o": "x"}), ";".join([blob(1, body), seg(0, [sentinel(g)])])))
    # thousands of connections accepted and dropped at once (the loop must be a loop, not recursion), then a healthy one
    ncyc = 3000
    cases.append(("C18-cyc", "T", opts_str({"i": "x", "u": -1, "o": "x"}), ";".join([seg(1, [g.any_frame(r.choice(ICAOS[:3]))]), blob(11, str(ncyc).encode()), seg(0, [sentinel(g)])])))
    # a long outage (thorough tier: 162 s of refused attempts): the aircraft learned before it, position and all, are shown
    # again at the first refresh after the reconnection (display on, all column groups, no expiry within the session)
    if tier != "quick":
        import props.common as pc
        pool = r.sample([x for x in ICAOS if x != SENT], 2)
        lines = pc.pair_frames(g, pool[0], 52.2, 4.1) + [g.f_df17(pool[0], g.me_velocity(1))] + [g.f_df11(pool[1])]
        cases.append(("C18-outage", "T", opts_str({"i": "aAews", "u": -1, "o": "x", "d": 100000}),
                      ";".join([seg(1, lines), "8:", seg(0, [sentinel(g)])])))
    # rows learned before an interruption survive it "subject to normal expiry": X is 5-6.5 s old (delete-after 7) when the
    # first sweep of the new connection runs; --update 2 so that a refresh shows the table after that sweep
    pool = r.sample([x for x in ICAOS if x != SENT], 3)
    first = seg(1, [g.any_frame(pool[0])])
    body = [g.f_df11(r.choice(pool[1:])) for _ in range(13)] + [sentinel(g)]
    cases.append(("C18-e", "T", opts_str({"i": "x", "u": 2, "o": "x", "d": 7}), ";".join([first, "3:", seg(6, body)])))
    return cases


def parse(obs):
    d = dict(kv.split("=", 1) for kv in obs.split(";"))
    return d


def compare(parts, impl, model):
    if impl[0] == "harness-error":
        return []
    if impl[0] != model[0]:
        return ["outcome impl=%s model=%s" % (impl[0], model[0])]
    d = parse(impl[1])
    keys_i = sorted(k for k in d["keys"].split(",") if k)
    segs = sqcmp.parse_obs(model[1]) if model[1] else [[]]
    rows = segs[-1]
    keys_m = sorted(r["key"] for r in rows)
    out = []
    if keys_i != keys_m:
        out.append("table after the session: CLI shows %s, model %s" % (keys_i, keys_m))
    # the retry schedule of the model's loop against the observed spacing of connection attempts: after an attempt that the
    # model follows with a 5 s pause the next connection comes after about 5 s, after a clean close at once.  Only pairs of
    # directly consecutive accepted connections are judged (a refused attempt in between is the oracle's business).
    pauses = []
    if len(segs) > 1 and segs[0] and "pauses" in segs[0][0]:
        pauses = [int(x) for x in segs[0][0]["pauses"].split(";") if x]
    events = [int(s.split(":", 1)[0]) for s in parts[3].split(";") if s]
    gaps = [float(x) for x in d["gaps"].split(",") if x]
    if len(pauses) == len(events):
        gi = 0
        for k, e in enumerate(events):
            if e in (3, 8, 12):
                continue
            if k > 0 and events[k - 1] not in (3, 8, 12) and gi < len(gaps):
                g = gaps[gi]
                if pauses[k - 1] == 5 and not (3.5 <= g <= 9.0):
                    out.append("retry schedule: the model's loop pauses 5 s after attempt %d (event type %d), observed %.2f s" % (k - 1, events[k - 1], g))
                if pauses[k - 1] == 0 and g > 2.5:
                    out.append("retry schedule: the model's loop reconnects at once after attempt %d (clean close), observed %.2f s" % (k - 1, g))
            gi += 1
    elif events:
        out.append("model schedule has %d pauses for %d attempts" % (len(pauses), len(events)))
    return out


def oracle(parts, outcome, obs):
    if outcome == "harness-error":
        return None     # the scripted peer could not get its port; nothing was observed
    if outcome != "ok":
        return "outcome %s (%s)" % (outcome, obs)
    d = parse(obs)
    fails = []
    if d["alive"] != "1":
        fails.append("the decoder terminated during the session")
    events = [int(s.split(":", 1)[0]) for s in parts[3].split(";") if s]
    want_conns = sum(1 for e in events if e not in (3, 8, 12))
    for s in parts[3].split(";"):
        if s.startswith("11:!"):
            want_conns += int(bytes.fromhex(s[4:]).decode()) - 1
    events = [0 if e == 6 else (2 if e == 7 else e) for e in events]
    if int(d["conns"]) != want_conns:
        fails.append("connections accepted %s, expected %d" % (d["conns"], want_conns))
    keys = set(k for k in d["keys"].split(",") if k)
    if "%06X" % SENT not in keys:
        fails.append("the healthy connection's aircraft is not in the table")
    # aircraft learned before the interruption are still there
    learned = set()
    for s in parts[3].split(";"):
        if not s:
            continue
        t, rest = s.split(":", 1)
        data = bytes.fromhex(rest[1:]) if rest.startswith("!") else b"".join(bytes.fromhex(l) + b"\n" for l in rest.split(",") if l and l != ".")
        for ln in pyspec.file_lines(data):
            fr = pyspec.frame_of_line(ln)
            if fr and fr != "zero":
                learned.add("%06X" % fr[1])
    if not learned <= keys:
        fails.append("aircraft learned before the interruption are missing: %s" % sorted(learned - keys))
    # retry pause after a refused attempt: about 5 s
    gaps = [float(x) for x in d["gaps"].split(",") if x]
    gi = 0
    pending_refuse = False
    for e in events:
        if e in (3, 8, 12):
            # 12: the listener is away for 6.5 s -- two attempts are refused, each followed by a 5 s pause
            pending_refuse = 162.0 if e == 8 else (9.0 if e == 12 else 0.001)
            continue
        if pending_refuse and gi < len(gaps):
            lo = 3.0 if pending_refuse < 1 else pending_refuse
            if not (lo <= gaps[gi] <= lo + 7.0):
                fails.append("connection after refused attempts came after %.1f s, expected within about 5 s of the listener's return" % gaps[gi])
        pending_refuse = False
        gi += 1
    return fails


CLAIM = {
    "text": "Theorems C18_table_kept / C18_never_stops (Coq, closed) about the LOGIC of the connection loop: for every sequence of connections (each delivering an arbitrary byte string, possibly empty or ending in a partial line) the loop threads one table through total read_lines calls, so it never panics or terminates and the final table is the fold of the delivered streams -- rows learned before an interruption are kept, a partial last line is just a malformed line; the loop WITH ITS RETRY PAUSES (Model/Display.v run_tcp_loop: attempts refused / delivered-then-closed / delivered-then-reset) never stops, keeps the table, pauses 5 s after exactly the failed attempts and resumes decoding on the next healthy connection (C18_loop_never_stops, C18_loop_table, C18_retry_schedule, C18_retry_after_failure, C18_resumes). Tied to the code by the built CLI against a scripted loopback peer: refused attempts, accept+close, frames+close, partial line + RST (SO_LINGER 0), junk bytes, then a healthy connection carrying a sentinel aircraft; observed: process liveness, number and spacing of connection attempts (about 5 s after a refusal), final table vs the model and the oracle, and the spacing of consecutive connections vs the model's retry schedule (about 5 s after a reset, at once after a clean close); also a connection reset after more than 5 s of uptime and sessions with the downlink log (-D) switched on.",
    "note": "PARTIAL by nature: real sockets, kernel reset timing, DNS and connect() blocking are not modelled, only exercised; the theorem covers the loop's bookkeeping.",
    "technique": "Coq proof: totality + fold structure of the connection loop model; scripted-peer differential runs on the CLI",
}
