"""C07 -- callsign and emitter category are decoded character-exactly."""
from sqgen import *
import pyspec

ID = "C07"
TARGETS = ["Properties/C07.vo"]
FIELDS = ["key", "ais", "cat"]
NEED_CLI = True
EXPLANATION = ("theorems: ais() = eight 6-bit slices of bits 41-88 through the IA5 subset for every frame (per-position slicing by "
               "kernel sweeps + field locality; character map symbolic); wake table total; row effect. Correspondence: 64 codes x 8 "
               "positions, random strings, TC 1..4 x CA 0..7, BDS 2,0 via DF20/21 under capability states, +/-U +/-R, CLI columns")
ASSUMPTIONS = ["display width 1 per character"]


def ia5(c):
    if 1 <= c <= 26:
        return chr(64 + c)
    if 48 <= c <= 57:
        return chr(c)
    return ""


def gen(seed, tier):
    g = Gen(seed * 1000003 + 7)
    r = g.r
    cases = []
    n = 0

    def add(o, segs):
        nonlocal n
        cases.append(H("C07-%d" % n, o, segs))
        n += 1
    rep = 1 if tier == "quick" else 6
    for _ in range(rep):
        for pos in range(8):
            for code in range(64):
                chars = [r.choice([r.randint(1, 26), r.randint(48, 57), 32]) for _ in range(8)]
                chars[pos] = code
                icao = r.choice(ICAOS)
                tc, ca = r.randint(1, 4), r.randint(0, 7)
                o = {"U": 1} if r.random() < 0.5 else {}
                segs = [seg(0, [g.f_df11(icao)])] if r.random() < 0.5 else []
                segs.append(seg(0, [g.f_df17(icao, me_ident(tc, ca, chars))]))
                add(o, segs)
    for _ in range(300 * rep):
        icao = r.choice(ICAOS)
        o = {}
        if r.random() < 0.5:
            o["U"] = 1
        if r.random() < 0.4:
            o["R"] = 1
        segs = []
        # capability state: none / CA<4 / CA>=4 via DF11
        st = r.randint(0, 2)
        if st:
            segs.append(seg(0, [g.f_df11(icao, ca=r.choice([0, 1, 3]) if st == 1 else r.choice([4, 5, 7]))]))
        else:
            segs.append(seg(0, [g.f_short(5, icao)]))
        for _ in range(r.randint(1, 4)):
            k = r.random()
            if k < 0.5:
                chars = [r.randint(0, 63) for _ in range(8)]
                segs.append(seg(0, [g.f_long(r.choice([20, 21]), icao, None, bds20(chars))]))
            elif k < 0.8:
                segs.append(seg(0, [g.f_df17(icao, g.me_ident())]))
            else:
                segs.append(seg(0, [g.any_frame(icao)]))
        add(o, segs)
    # an identification squitter whose eight characters are all unprintable: empty callsign, category recorded
    for blank in (32, 0, 63, 27, 47):
        for u in (0, 1):
            for first in (0, 1):
                icao = r.choice(ICAOS)
                o = {"U": 1} if u else {}
                segs = [] if first else [seg(0, [g.f_df17(icao, me_ident(r.randint(1, 4), r.randint(0, 7), [ia5_code(c) for c in "SWR123  "]))])]
                segs.append(seg(0, [g.f_df17(icao, me_ident(r.randint(1, 4), r.randint(1, 7), [blank] * 8))]))
                add(o, segs)
    # CLI columns
    for i in range(40 * rep):
        icao = r.choice(ICAOS)
        lines = [g.f_df17(icao, me_ident(r.randint(1, 4), r.randint(0, 7), [r.choice([r.randint(1, 26), r.randint(48, 57), 32, 0, 63]) for _ in range(8)])) for _ in range(r.randint(1, 4))]
        cases.append(("C07-c%d" % i, "C", opts_str({"i": r.choice(["e", "x", "aAews"]), "u": -1, "o": "x", "l": i % 3}), seg(0, lines)))
    # the same callsign again with a different type code / category, and the callsign first learned from Comm-B: the category
    # recorded is the latest squitter's; a later BDS 2,0 reply with another callsign replaces the first
    for i in range(20 * rep):
        icao = r.choice(ICAOS)
        name = [r.randint(1, 26) for _ in range(r.randint(3, 8))]
        name += [32] * (8 - len(name))
        o = {"U": 1} if i % 2 else {}
        if i % 3 == 0:
            o["R"] = 1
        segs = [seg(0, [g.f_df11(icao, ca=5)])]
        if r.random() < 0.5:
            segs.append(seg(0, [g.f_long(r.choice([20, 21]), icao, None, bds20(name))]))
        for _ in range(r.randint(2, 4)):
            segs.append(seg(0, [g.f_df17(icao, me_ident(r.randint(1, 4), r.randint(0, 7), name))]))
        other = [r.randint(1, 26) for _ in range(8)]
        segs.append(seg(0, [g.f_long(r.choice([20, 21]), icao, None, bds20(other))]))
        segs.append(seg(0, [g.f_long(r.choice([20, 21]), icao, None, bds20(name))]))
        segs.append(seg(0, [g.f_df17(icao, me_ident(r.randint(1, 4), r.randint(0, 7), name))]))
        add(o, segs)
    # in ONE reader run: identification squitters of different aircraft whose character fields differ in a single bit (each of
    # the 48), categories one apart: every frame is decoded from its own bits, nothing is remembered from the previous one
    for i in range(16 * rep):
        pool = r.sample(ICAOS, 4)
        base = [r.choice([r.randint(1, 26), r.randint(48, 57)]) for _ in range(8)]
        lines = []
        for k, a in enumerate(pool):
            name = list(base)
            if k % 2:
                pos = (i * 3 + k) % 48
                name[pos // 6] ^= 1 << (pos % 6)
            lines.append(g.f_df17(a, me_ident(4 if k < 2 else r.randint(1, 4), (i + k) % 8, name)))
        o = {"U": 1} if i % 2 else {}
        add(o, [seg(0, lines)])
    # CLI columns while other markers share the row: ACAS threat marker (BDS 3,0), Comm-B data, positions
    for i in range(12 * rep):
        icao = r.choice(ICAOS)
        lines = [g.f_df11(icao, ca=5),
                 g.f_df17(icao, me_ident(4, r.choice([1, 2, 3, 4, 5, 7]), [r.randint(1, 26) for _ in range(8)])),
                 g.f_long(r.choice([20, 21]), icao, None, bds30(r.getrandbits(48) | r.choice([0, 1 << 47, 1 << 28, (1 << 47) | (1 << 28)]))),
                 g.f_long(r.choice([20, 21]), icao, None, bds30(r.choice([1 << 47, 1 << 28]) | r.getrandbits(20))),
                 g.f_df17(icao, g.me_airpos())]
        if r.random() < 0.5:
            lines.insert(2, lines.pop(1))
        o = {"i": r.choice(["e", "x", "aAews"]), "u": -1, "o": "x"}
        if r.random() < 0.5:
            o["R"] = 1
        if r.random() < 0.5:
            o["U"] = 1
        cases.append(("C07-t%d" % i, "C", opts_str(o), seg(0, lines)))
    return cases


def oracle(parts, outcome, obs):
    if outcome.replace("+slow", "") != "ok":
        return "outcome %s" % outcome
    if parts[1] == "C":
        from props.common import check_last_frame_cells
        return check_last_frame_cells(parts, obs, "".join(pyspec.case_opts(parts).get("i", "").split("+")))
    if parts[1] != "H":
        return None
    opts = pyspec.case_opts(parts)
    segs = pyspec.case_segments(parts)
    osegs = obs.split("#")
    relaxed = opts.get("R") == "1"
    cap = {}        # icao -> ("df11", ca) known capability source
    want = {}       # icao -> set of acceptable ais tokens
    wcat = {}
    seen = set()
    for k, (t, lines) in enumerate(segs):
        if k >= len(osegs):
            return "missing observation"
        rows = pyspec.rows_of(osegs[k])
        for ln in lines:
            fr = pyspec.frame_of_line(ln)
            if not fr or fr == "zero":
                continue
            df, icao, v, nb = fr
            first = icao not in seen
            seen.add(icao)
            got = rows.get(icao, {})
            if df == 11 or (df == 17 and opts.get("U") == "1" and not first):
                cap[icao] = getbits(v, nb, 6, 8)
            ident = df in (17, 18) and 1 <= getbits(v, nb, 33, 37) <= 4
            if not ident and not first and icao in wcat and got.get("cat") != wcat[icao]:
                return "emitter category changed to %s by a DF%d frame that is not an identification squitter" % (got.get("cat"), df)
            if "cat" in got:
                wcat[icao] = got["cat"]
            if df == 18 and opts.get("U") == "1" and not first and 1 <= getbits(v, nb, 33, 37) <= 4:
                # with -U a DF18 message is decoded like a DF17 one (the property names DF17 only: not judged)
                want[icao] = got.get("ais", "-")
            elif df == 17 and 1 <= getbits(v, nb, 33, 37) <= 4:
                cs = "".join(ia5(getbits(v, nb, 41 + 6 * i, 46 + 6 * i)) for i in range(8))
                if got.get("ais") != '"%s"' % cs:
                    return "TC%d callsign %s expected \"%s\"" % (getbits(v, nb, 33, 37), got.get("ais"), cs)
                wc = "%d.%d" % (getbits(v, nb, 33, 37), getbits(v, nb, 38, 40))
                if got.get("cat") != wc:
                    return "category %s expected %s" % (got.get("cat"), wc)
                want[icao] = got.get("ais")
            elif df in (20, 21) and getbits(v, nb, 33, 40) == 0x20 and not first:
                cs = '"%s"' % "".join(ia5(getbits(v, nb, 41 + 6 * i, 46 + 6 * i)) for i in range(8))
                gate_open = relaxed or cap.get(icao, -1) >= 4
                gate_closed = (not relaxed) and icao in cap and cap[icao] < 4
                if gate_open and got.get("ais") != cs:
                    return "BDS 2,0 callsign %s expected %s (gate open)" % (got.get("ais"), cs)
                if gate_closed and got.get("ais") != want.get(icao, "-"):
                    return "BDS 2,0 changed the callsign to %s although capability %d < 4 and no -R" % (got.get("ais"), cap[icao])
                want[icao] = got.get("ais")
            else:
                if not first and got.get("ais") != want.get(icao, "-") and df not in (20, 21):
                    return "callsign changed to %s by a DF%d frame that does not carry it" % (got.get("ais"), df)
                want[icao] = got.get("ais", "-")
    return None


CLAIM = {
    "text": "Theorems C07_callsign / C07_wake / C07_update (Coq, closed): for every frame holding bits 41-88 the decoder returns exactly the eight 6-bit characters of that field in order through the IA5 subset (1-26 -> A-Z, 48-57 -> 0-9, everything else omitted) and cannot panic; the wake-class letter equals the specification for ALL (type code, category) pairs over the table regenerated from icao.rs; a TC 1-4 squitter records callsign, type code and category. Tied to the code on 64 codes x 8 positions, random strings, TC x CA, BDS 2,0 via DF20/21 under every capability state, +/-U +/-R, and the W / CALLSIGN columns of the CLI. An identification squitter that creates the row delivers callsign and category (C07_new_row).",
    "note": "BDS 2,0 gating is C10's subject; here the oracle only checks it where the property is unambiguous.",
    "technique": "Coq proof (per-position slicing by reflection sweeps against the bit-field specification, symbolic character map); differential runs + CLI",
}
