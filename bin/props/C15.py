"""C15 -- every refresh lists each aircraft once, ordered by the requested key."""
from sqgen import *
import pyspec
from props.common import *

ID = "C15"
TARGETS = ["Properties/C15.vo"]
FIELDS = None
NEED_CLI = True
EXPLANATION = ("theorems (generic in the table): the printed order is a permutation of the table (each aircraft exactly once), sorted by the "
               "key of the last recognised -o letter (ascending, or descending for the reversing letters), ascending addresses when no "
               "letter is recognised. Correspondence: CLI row sequence vs model print order and vs the oracle, tables with ties, blanks, "
               "negative rates, both hemispheres; every letter, pairs, random strings incl. unknown letters, several -o arguments")
ASSUMPTIONS = ["keys N/S/W/E/d/D are compared at whole-degree / whole-km granularity (as i32), the reading under which the theorem is stated",
               "sort_by_cached_key is a stable sort (std); modelled by a stable insertion sort"]

LETTERS = "aAcCdDNSWEsVv"


def build_table(g):
    r = g.r
    lines = []
    pool = r.sample(ICAOS, r.randint(3, 7)) + [r.getrandbits(24) | 1 for _ in range(r.randint(0, 3))]
    alts = [r.randint(40, 1600) for _ in range(3)]
    for icao in pool:
        k = r.random()
        if k < 0.8:
            lines.append(g.f_df11(icao))
        if r.random() < 0.7:
            lines.append(g.f_short(5, icao, (r.getrandbits(14) << 13) | r.choice([r.getrandbits(13), 0x0AAA, 0x0AAA])))
        if r.random() < 0.7:
            lines.append(g.f_short(4, icao, ac13_from_alt25(r.choice(alts + [r.randint(40, 2000)]))))
        if r.random() < 0.6:
            lines.append(g.f_df17(icao, me_velocity(1, r.randint(0, 1), r.randint(1, 500), r.randint(0, 1), r.randint(1, 500), 0, r.randint(0, 1), r.choice([1, 2, 3, 30, 100]))))
        if r.random() < 0.6:
            lat = r.choice([r.uniform(-80, 80), 52.2, 52.7, -33.4])
            lon = r.choice([r.uniform(-170, 170), 4.1, 4.9, -70.2])
            lines += pair_frames(g, icao, lat, lon)
        if r.random() < 0.5:
            lines.append(g.f_df17(icao, me_ident(r.randint(1, 4), r.randint(0, 7), [r.randint(1, 26) for _ in range(8)])))
        # every supported format can be the only / the latest one heard from an aircraft (DF0 and DF18 leave the
        # last-format marker at 0, DF16/20/21 are long replies)
        if r.random() < 0.35:
            lines.append(g.odd_frame(r.choice([0, 0, 18, 18, 16, 20, 21]), icao))
    for _ in range(r.randint(0, 2)):
        lines.append(g.odd_frame(r.choice([0, 18]), r.getrandbits(24) | 1))      # aircraft known from DF0 / DF18 only
    r.shuffle(lines)
    for _ in range(r.randint(0, 2)):
        lines.append(g.odd_frame(r.choice([0, 18, 0, 4]), r.choice(pool)))        # ... or heard last on DF0 / DF18
    return lines


def gen(seed, tier):
    g = Gen(seed * 1000003 + 15)
    r = g.r
    cases = []
    n = 0
    orders = [c for c in LETTERS] + [a + b for a in LETTERS for b in "asvN"] + ["x", "q", "zs", "sz", "s;a", "s a", "A-s", ";A", "a;", "s.A", "s:a", "asa", "sAs", "aa", "sas"]
    if tier != "quick":
        orders += [a + b for a in LETTERS for b in LETTERS]
    for ob in orders:
        for _ in range(1 if tier == "quick" else 3):
            o = {"i": r.choice(["e", "aAews", "Ae"]), "u": -1, "o": ob}
            cases.append(("C15-%d" % n, "C", opts_str(o), seg(0, build_table(g))))
            n += 1
    for _ in range(40 if tier == "quick" else 400):
        parts = ["".join(r.choice(LETTERS + "xyz" + (";. -_0/:" if r.random() < 0.4 else "")) for _ in range(r.randint(0, 4))) or "x" for _ in range(r.randint(1, 3))]
        parts = [p_.lstrip("-") or "x" for p_ in parts]      # a leading '-' would be read as an option by clap
        o = {"i": "e", "u": -1, "o": "+".join(parts)}
        if r.random() < 0.3:
            o["U"] = 1
        cases.append(("C15-%d" % n, "C", opts_str(o), seg(0, build_table(g))))
        n += 1
    # distance keys with an observer: aircraft a few hundred metres apart around whole kilometres (judged by the oracle alone:
    # the model has no haversine and orders d/D by a constant)
    import props.common as pc
    for i in range(6 if tier == "quick" else 60):
        olat, olon = r.uniform(-60, 60), r.uniform(-170, 170)
        lines = []
        for icao in r.sample(ICAOS, 6):
            dist_km = r.choice([10, 11, 25]) + r.choice([0.05, 0.3, 0.45, 0.55, 0.7, 0.95])
            lat = olat + (dist_km / 111.195) * r.choice([1, -1])
            lines += pc.pair_frames(g, icao, lat, olon)
        r.shuffle(lines)
        o = {"i": "e", "u": -1, "o": r.choice(["d", "D", "sd", "aD"]), "O": ("%.5f,%.5f" % (olat, olon)).encode().hex().upper()}
        cases.append(("C15-o%d" % n, "C", opts_str(o), seg(0, lines)))
        n += 1
    # large tables (more rows than any block or buffer size someone might choose): still each aircraft once, in key order
    for i, size in enumerate([65, 66, 129, 200] if tier == "quick" else [63, 64, 65, 66, 127, 128, 129, 130, 200, 257, 300, 513]):
        addrs = r.sample(range(1, 1 << 24), size)
        lines = []
        for a in addrs:
            lines.append(r.choice([g.f_short(5, a, (r.getrandbits(14) << 13) | r.getrandbits(13)), g.f_short(4, a, ac13_from_alt25(r.randint(40, 1600))), g.f_df11(a)]))
        o = {"i": r.choice(["e", "x"]), "u": -1, "o": r.choice(["x", "s", "a", "A", "sA"]), "d": 100000}
        cases.append(("C15-big%d" % i, "C", opts_str(o), seg(0, lines)))
        n += 1
    # rows that were swept and heard again shortly afterwards (--delete-after 0: every sweep empties the table): still one
    # row per aircraft, still in key order
    for i in range(6 if tier == "quick" else 60):
        pool = r.sample(ICAOS, r.randint(2, 4))
        lines = [g.f_short(r.choice([4, 5]), r.choice(pool)) for _ in range(r.randint(13, 40))]
        o = {"i": "e", "u": -1, "o": r.choice(["x", "a", "s", "A"]), "d": 0}
        cases.append(("C15-z%d" % n, "C", opts_str(o), seg(0, lines)))
        n += 1
    return cases


def skip_case(parts, impl, model):
    return parts[0].startswith("C15-o")


def key_of(letter, line, cols):
    def num(name, blank):
        c = cell(line, cols, name).strip()
        if not c:
            return blank
        try:
            return float(c)
        except ValueError:
            return blank
    if letter in "aA":
        return num("ALT B", -1)
    if letter == "s":
        return num("SQWK", -1)
    if letter in "vV":
        return num("VRATE", 0)
    if letter in "NS":
        return int(num("LATITUDE", 0))
    if letter in "WE":
        return int(num("LONGITUDE", 0))
    if letter in "dD":
        return int(num("DIST", 0))
    if letter in "cC" and "VX" in cols:
        c = cell(line, cols, "VX")
        try:
            return (int(c[0]), int(c[1])) if letter == "c" else (int(c[0]) * 2) | int(c[1])
        except ValueError:
            return None
    return None


DESC = set("ADSEVC")


def oracle(parts, outcome, obs):
    if outcome != "ok":
        return "outcome %s" % outcome
    opts = pyspec.case_opts(parts)
    flags = "".join(opts.get("i", "").split("+"))
    cols, width = columns(flags)
    letters = [c for c in "".join(opts.get("o", "").split("+")) if c in LETTERS]
    # expected aircraft after each accepted line
    expected = []
    seen = []
    for ln in pyspec.case_segments(parts)[0][1]:
        fr = pyspec.frame_of_line(ln)
        if fr and fr != "zero":
            if fr[1] not in seen:
                seen.append(fr[1])
            expected.append(set(seen))
    frames = frames_of(obs)
    if len(frames) != len(expected):
        return "frames printed %d, accepted frames %d" % (len(frames), len(expected))
    for k, (fr, exp) in enumerate(zip(frames, expected)):
        rows = rows_of_frame(fr)
        ids = [int(l[:6], 16) for l in rows]
        if len(ids) != len(set(ids)):
            return "frame %d lists an aircraft twice" % k
        if "d" not in opts and set(ids) != exp:
            return "frame %d lists %s, table holds %s" % (k, sorted("%06X" % x for x in ids), sorted("%06X" % x for x in exp))
        if not letters:
            if ids != sorted(ids):
                return "frame %d: no recognised key, rows not in ascending address order" % k
            continue
        last = letters[-1]
        if any(len(l) != len(fr[0]) for l in rows):
            continue        # a 5-letter country code (ICAO1/ICAO2 blocks) widens its row: the cells cannot be cut by column
        keys = [key_of(last, l, cols) for l in rows]
        if any(x is None for x in keys):
            continue
        seq = keys if last not in DESC else [(-x if not isinstance(x, tuple) else x) for x in keys]
        if last == "C":
            seq = [-x for x in keys]
        if last in "dD":
            # the cell shows the distance rounded to 0.1 km, the program compares whole kilometres (truncated): a cell
            # reading x.0 may stand for key x-1 or x.  Monotone iff some consistent choice of keys is.
            vals = []
            for l in rows:
                c = cell(l, cols, "DIST").strip()
                v = float(c) if c else 0.0
                vals.append(sorted({int(v - 0.05) if v >= 0.05 else 0, int(v + 0.05)}))
            if last == "D":
                vals = [[-x for x in reversed(c)] for c in vals]
            prev, ok = None, True
            for cand in vals:
                pick = [x for x in cand if prev is None or x >= prev]
                if not pick:
                    ok = False
                    break
                prev = min(pick)
            if not ok:
                return "frame %d: key '%s' not monotone down the table: %s" % (k, last, keys)
            continue
        if any(seq[i] > seq[i + 1] for i in range(len(seq) - 1)):
            return "frame %d: key '%s' not monotone down the table: %s" % (k, last, keys)
    return None


CLAIM = {
    "text": "Theorems C15_permutation / C15_each_once / C15_sorted_by_last_key / C15_default_address_order, C15_letters_sorted / C15_letter_table_complete (the property's own letter table s, a/A, v/V, N/S, W/E, d/D, c/C with keys and directions, written without the model's sort actions), C15_ties_keep_previous_order / C15_ties_reversed_for_A_D, C15_frame_rows / C15_frame_row_count / C15_reachable_frame_lists_each_once / C15_cli_every_refresh_lists_each_once (every refresh printed while reading any byte stream lists each aircraft tracked at that moment exactly once) (Coq, closed, generic in table and key functions): for every table and every -o argument list the printed order is a permutation of the table, lists each address exactly once, is monotone in the key of the last recognised letter (descending for the reversing letters), and is in strictly ascending address order when no letter is recognised. Tied to the code through the built CLI: row sequence of every printed frame vs the model's print order and vs the oracle, on tables with ties, blanks, negative vertical rates and both hemispheres, for every letter, letter pairs, random strings with unknown letters and several -o arguments.",
    "note": "For N/S/W/E/d/D the key is the whole-degree / whole-km value the program compares; the distance keys are only compared by the oracle (the model has no haversine).",
    "technique": "Coq proof: stable insertion sort is a sorting permutation, fold of sorts is sorted by the last effective one; CLI differential runs + oracle",
}
