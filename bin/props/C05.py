"""C05 -- barometric altitude equals the Mode S altitude-code decoding."""
import os, re
from sqgen import *
import pyspec

ID = "C05"
TARGETS = ["Properties/C05.vo"]
FIELDS = ["key", "alt"]
NEED_RELEASE = True
EXPLANATION = ("theorems: decoder = specification on the altitude FIELD VALUE for every frame (sweep of all 65536 contents of the nibbles "
               "read + locality lemmas; 4096 AC12 values), except the listed known-finding codes, for which the exact wrong value is "
               "pinned; row effect on both paths. Correspondence: all 2^13 codes in DF4 and DF20, all 2^12 codes in TC 9..18, other "
               "bits random, first/later frame, +/-U +/-R, dev and release profiles")
ASSUMPTIONS = ["Gillham table written as Gray-code arithmetic (Spec/AltSpec.v); M=1 codes are unconstrained"]

_known = None


def known_set():
    global _known
    if _known is None:
        _known = {}
        p = os.path.join(os.path.dirname(os.path.dirname(os.path.dirname(os.path.abspath(__file__)))), "known", "C05_gillham_ac13.txt")
        for line in open(p):
            if line.startswith("#") or not line.strip():
                continue
            c, got, want = line.split()
            _known[int(c)] = got
    return _known


def gen(seed, tier):
    g = Gen(seed * 1000003 + 5)
    r = g.r
    cases = []
    n = 0
    reps = 1 if tier == "quick" else 2
    for rep in range(reps):
        for df in (4, 20):
            codes = list(range(8192))
            r.shuffle(codes)
            for i in range(0, 8192, 16):
                icao = r.choice(ICAOS)
                o = {}
                if r.random() < 0.5:
                    o["U"] = 1
                if r.random() < 0.5:
                    o["R"] = 1
                segs = [seg(0, [g.f_df11(icao, ca=r.choice([0, 5]))])] if r.random() < 0.8 else []
                for c in codes[i:i + 16]:
                    f27 = (r.getrandbits(14) << 13) | c
                    fr = g.f_short(4, icao, f27) if df == 4 else g.f_long(20, icao, f27, g.mb_any())
                    segs.append(seg(0, [fr]))
                cases.append(H("C05-a%d" % n, o, segs))
                n += 1
        tcs = list(range(9, 19)) if tier != "quick" else r.sample(range(9, 19), 2)
        for tc in tcs:
            codes = list(range(4096))
            r.shuffle(codes)
            for i in range(0, 4096, 16):
                icao = r.choice(ICAOS)
                o = {}
                if r.random() < 0.5:
                    o["U"] = 1
                segs = [seg(0, [g.f_df11(icao)])] if r.random() < 0.5 else []
                for c in codes[i:i + 16]:
                    me = me_airborne_pos(tc, c, r.randint(0, 1), r.getrandbits(17), r.getrandbits(17), r.randint(0, 3), r.randint(0, 1), r.randint(0, 1))
                    segs.append(seg(0, [g.f_df17(icao, me)]))
                cases.append(H("C05-e%d" % n, o, segs))
                n += 1
    # the reply of an aircraft silent for longer than --delete-after arrives exactly when the sweep is due (12th applied frame
    # of the run): the row is refreshed first, so it is an existing row and the reply has its effect
    for rep in range(6 if tier == "quick" else 60):
        pool = r.sample(ICAOS, 4)
        d = r.choice([1, 5])
        o = {"d": d}
        if rep % 2:
            o["U"] = 1
        code = (r.randint(41, 2047) >> 4 << 5) | 0x10 | (r.randint(41, 2047) & 0xF)
        code &= ~0x40
        df = r.choice([20, 20, 4])
        reply = g.f_short(4, pool[0], (r.getrandbits(14) << 13) | code) if df == 4 else g.f_long(20, pool[0], (r.getrandbits(14) << 13) | code, g.mb_any())
        segs = [seg(0, [g.f_df17(pool[0], g.me_airpos())]),
                seg(d * 1000 + 500, [g.f_df11(r.choice(pool[1:])) for _ in range(11)] + [reply])]
        cases.append(H("C05-w%d" % n, o, segs))
        n += 1
    # history: surface position frames (TC 5-8) of either parity before and between the airborne ones -- the altitude of an
    # airborne frame is that frame's, whatever the CPR slots still hold
    for rep in range(6 if tier == "quick" else 60):
        icao = r.choice(ICAOS)
        o = {"U": 1} if rep % 2 else {}
        segs = []
        for _ in range(r.randint(4, 9)):
            if r.random() < 0.45:
                segs.append(seg(0, [g.f_df17(icao, g.me_surfpos(odd=r.randint(0, 1)))]))
            else:
                c = r.choice([0x0B9, 0xC38, r.getrandbits(12) | 0x10])
                me = me_airborne_pos(r.randint(9, 18), c, r.randint(0, 1), r.getrandbits(17) | 1, r.getrandbits(17) | 1, r.randint(0, 3), r.randint(0, 1), r.randint(0, 1))
                segs.append(seg(0, [g.f_df17(icao, me)]))
        cases.append(H("C05-s%d" % n, o, segs))
        n += 1
    # "any other payload bits": the other fields of the frame at their extremes -- CPR fields all zero / all ones, both
    # parities, time bit, surveillance status -- for a spread of altitude codes, as first frame and as update
    special = [(0, 0), (0x1FFFF, 0x1FFFF), (0, 0x1FFFF), (0x1FFFF, 0), (1, 1), (0, 1), (1, 0)]
    for rep in range(2 if tier == "quick" else 12):
        for tc in range(9, 19):
            icao = r.choice(ICAOS)
            o = {"U": 1} if r.random() < 0.5 else {}
            segs = []
            for la, lo in special:
                c = r.choice([0x010, 0xFFF, 0xC38, r.getrandbits(12) | 0x10])
                me = me_airborne_pos(tc, c, r.randint(0, 1), la, lo, r.choice([0, 3]), r.randint(0, 1), r.randint(0, 1))
                segs.append(seg(0, [g.f_df17(icao, me)]))
            cases.append(H("C05-p%d" % n, o, segs))
            n += 1
    for rep in range(4 if tier == "quick" else 40):
        icao = r.choice(ICAOS)
        o = {"U": 1} if rep % 2 else {}
        segs = []
        for hi in (0, 0x3FFF, 0x2AAA, 0x1555):
            c = r.getrandbits(13) & ~0x40 | 0x10
            segs.append(seg(0, [g.f_short(4, icao, (hi << 13) | c)]))
            segs.append(seg(0, [g.f_long(20, icao, (hi << 13) | (r.getrandbits(13) & ~0x40 | 0x10), r.choice([0, (1 << 56) - 1]))]))
        cases.append(H("C05-q%d" % n, o, segs))
        n += 1
    # in ONE reader run: consecutive replies of different aircraft whose altitude codes differ in exactly one bit (every data
    # bit of the 13-bit field, M and Q kept): each is decoded from its own bits, nothing is remembered from the previous frame
    for rep in range(3 if tier == "quick" else 30):
        for bit in (0, 1, 2, 3, 5, 7, 8, 9, 10, 11, 12):
            pool = r.sample(ICAOS, 4)
            base = r.getrandbits(13) & ~0x40 | 0x10
            codes = [base, base ^ (1 << bit), base, base ^ (1 << bit)]
            lines = []
            for a, c in zip(pool, codes):
                hi = r.getrandbits(14)
                lines.append(g.f_short(4, a, (hi << 13) | c) if r.random() < 0.7 else g.f_long(20, a, (hi << 13) | c, g.mb_any()))
            o = {"U": 1} if bit % 2 else {}
            cases.append(H("C05-n%d" % n, o, [seg(0, [g.f_df11(a, ca=5) for a in pool]), seg(0, lines)]))
            n += 1
    return cases


def distribution(idx):
    return {"cases": len(idx), "ac13": "all 8192 codes in DF4 and in DF20", "ac12": "all 4096 codes per sampled TC"}


def oracle(parts, outcome, obs):
    if outcome.replace("+slow", "") != "ok":
        return "outcome %s" % outcome
    segs = pyspec.case_segments(parts)
    osegs = obs.split("#")
    prev = {}
    seen = set()
    fails = []
    for k, (t, lines) in enumerate(segs):
        if k >= len(osegs):
            return fails + ["missing observation"]
        rows = pyspec.rows_of(osegs[k])
        for ln in lines:
            fr = pyspec.frame_of_line(ln)
            if not fr or fr == "zero":
                continue
            df, icao, v, nb = fr
            got = rows.get(icao, {}).get("alt")
            first = icao not in seen
            seen.add(icao)
            fmt = None
            if df in (4, 20):
                code = getbits(v, nb, 20, 32)
                kind, val = pyspec.ac13_altitude(code)
                fmt = "ac13"
            elif df == 17 and 9 <= getbits(v, nb, 33, 37) <= 18:
                code = getbits(v, nb, 41, 52)
                kind, val = pyspec.ac12_altitude(code)
                fmt = "ac12"
            if fmt:
                if first and df == 20:
                    pass   # the creating DF20 frame may contribute the address only
                elif kind == "ft":
                    if got != str(val):
                        fails.append("ALT fmt=%s df=%d code=%d observed=%s expected=%d prev=%s" % (fmt, df, code, got, val, prev.get(icao, "-")))
                elif kind == "none":
                    if got not in ("-", prev.get(icao, "-")):
                        fails.append("ALT fmt=%s df=%d code=%d observed=%s expected=- prev=%s" % (fmt, df, code, got, prev.get(icao, "-")))
            prev[icao] = got
    return fails


def known_match(k, parts, failure):
    m = re.match(r"ALT fmt=(\w+) df=(\d+) code=(\d+) observed=(\S+) expected=(\S+) prev=(\S+)", failure)
    if not m:
        return False
    fmt, df, code, got, prev = m.group(1), int(m.group(2)), int(m.group(3)), m.group(4), m.group(6)
    sel = k.get("selector", {})
    if sel.get("kind") == "ac13_gillham" and fmt == "ac13":
        ks = known_set()
        # the listed value, or -- when the listed value is "none" -- the previous value, which the
        # default update path keeps when a DF4 reply decodes to no altitude
        return code in ks and (ks[code] == got or (ks[code] == "-" and got == prev))
    if sel.get("kind") == "ac12_gillham" and fmt == "ac12":
        return (code >> 4) & 1 == 0 and code != 0
    return False


CLAIM = {
    "text": "Theorems C05_ac13 / C05_ac12 / C05_known_finding_witness / C05_known_only_gillham / C05_update_df4_20 / C05_update_df17 / C05_downlink_df4 (Coq, closed): for every frame the altitude decoder is a function of the 13-bit field (bits 20-32) resp. the 12-bit field (bits 41-52) only and equals the specification (25 ft formula, zero code, negative -> none, Gillham in 100 ft) on every code outside the listed known findings; the listed codes are exactly pinned with the wrong value produced, all have Q=0, and a witness shows the unrestricted statement is false; the decoded value reaches the row on both update paths. Tied to the code on all 2^13 codes in DF4 and DF20 and all 2^12 codes in TC 9-18 with random other bits, first and later frames, +/-U +/-R, in dev and release builds. Through the whole pipeline also for the frame that CREATES the row (C05_new_row_df17, C05_new_row_df4), and a surface-position squitter blanks the altitude on both paths (C05_surface_blanks).",
    "note": "KNOWN FINDINGS K1a/K1b (Gillham decoding) are listed in known_findings.json by exact code set and produced value; they cannot be repaired with the unedited test-suite (tests pin a wrong value). M=1 codes are unconstrained by the property.",
    "technique": "Coq proof: locality lemmas + kernel-evaluated sweeps against an independent altitude-code specification; known-finding class as explicit hypothesis with witness; exhaustive code sweeps in the differential runs",
}
