"""C09 -- ground speed, track and vertical rate follow the TC19 velocity encoding."""
import math
from sqgen import *
import pyspec

ID = "C09"
TARGETS = ["Properties/C09.vo"]
COQCHK_NOREC = True     # coqchk of the full closure (Interval, Reals) takes > 45 min without vm: only the property file is re-checked
FIELDS = ["key", "gs", "trk", "vr"]
NEED_RELEASE = True
EXPLANATION = ("theorems: vertical rate and velocity decoders = formulas on the bit fields for every frame; ground speed is floor sqrt; the "
               "integer track procedure is floor(atan2) in the reals (89 Interval-proved tan enclosures + 91k-case gap check); values "
               "reach the row on both paths. Correspondence: axes, diagonals, near-degree neighbours, random component vectors, all "
               "1024 vertical-rate codes, first/n-th frame, both paths, dev+release")
ASSUMPTIONS = ["libm atan2/to_degrees/floor agree with the real-number floor on integer vectors (tested, not proved)",
               "f64 sqrt().floor() = integer square root for arguments < 2^22"]
TRUSTED = ["standard-library real-number axioms (Reals / Interval): sig_forall_dec, sig_not_dec, classic, functional_extensionality_dep, Uint63 primitives"]


def vectors(g, tier):
    r = g.r
    out = []
    spec = [0, 1, 2, 3, 1022, 1023]
    for a in spec:
        for b in spec:
            out.append((a, b))
    for a in range(1, 1024, 1 if tier != "quick" else 7):
        out += [(a, a), (a, 1), (1, a), (a, 2), (2, a)]
    # neighbours of integer degrees: b*tan(k deg) rounded both ways
    for k in range(1, 90):
        t = math.tan(math.radians(k))
        for b in (r.randint(2, 1022), r.randint(2, 1022), 1000, 573):
            a = b * t
            for x in (math.floor(a), math.ceil(a)):
                if 0 <= x <= 1022:
                    out.append((int(x) + 1, b + 1))
    for _ in range(3000 if tier == "quick" else 150000):
        out.append((r.randint(0, 1023), r.randint(0, 1023)))
    return out


def gen(seed, tier):
    g = Gen(seed * 1000003 + 9)
    r = g.r
    cases = []
    vecs = vectors(g, tier)
    r.shuffle(vecs)
    n = 0
    per = 40
    for i in range(0, len(vecs), per):
        icao = r.choice(ICAOS)
        frames = []
        for (vew, vns) in vecs[i:i + per]:
            st = r.choice([1, 1, 1, 2])
            frames.append(g.f_df17(icao, me_velocity(st, r.randint(0, 1), vew, r.randint(0, 1), vns, r.randint(0, 1), r.randint(0, 1),
                                                     r.choice([0, 1, 2, 511, r.randint(0, 511)]), r.randint(0, 1), r.randint(0, 127))))
        o = {"R": 1} if r.random() < 0.3 else {}
        cases.append(M("C09-v%d" % n, o, r.choice(["vm", "vd"]), frames))
        n += 1
    # all vertical-rate codes, both signs, both paths
    for path in ("vm", "vd"):
        for sign in (0, 1):
            codes = list(range(512))
            for i in range(0, 512, 64):
                icao = r.choice(ICAOS)
                frames = [g.f_df17(icao, me_velocity(r.choice([1, 2, 3, 4, 0]), 0, r.randint(0, 1023), 0, r.randint(0, 1023), 0, sign, c)) for c in codes[i:i + 64]]
                cases.append(M("C09-r%d" % n, {}, path, frames))
                n += 1
    # the velocity decoder of the IMPLEMENTATION swept exhaustively (kind V, judged by the oracle alone): every pair of
    # 10-bit magnitude fields x both sign bits each x subtype 1/2 -- 4.2 million frames (subtype 1) in the quick tier, 8.4 million
    # (both subtypes) in the thorough tier; both constructors
    chunks = list(range(0, 1024, 64))
    for lo in chunks:
        for st in ((1, 2) if tier != "quick" else (1,)):
            for sew in (0, 1):
                for sns in (0, 1):
                    path = "m" if (lo // 64 + sew + sns) % 2 else "d"
                    cases.append(("C09-V%d-%d-%d-%d" % (st, sew, sns, lo), "V", "-", "%d:%d:%d:%d:%d:%s" % (st, sew, sns, lo, lo + 64, path)))
    # velocity squitters whose ME field, read as a Comm-B MB field, is a plausible BDS 5,0 or 6,0 register: a DF17 frame must never
    # be taken for a Comm-B reply, under any option set (-U -R in particular), first or later frame
    import props.C10 as c10
    look = []
    tries = 0
    while len(look) < (12 if tier == "quick" else 120) and tries < 400000:
        tries += 1
        me = me_velocity(r.choice([1, 2]), 0, r.randint(1, 1023) | 1, 0, r.randint(1, 1023) | 1, r.randint(0, 1), r.randint(0, 1), r.randint(1, 511) | 1,
                         r.randint(0, 1), r.randint(1, 127))
        me |= r.getrandbits(5) << 43        # IC / IFR / NUC bits (bits 9-13 of the ME field)
        v = (17 << 107) | (5 << 104) | (0x4840D6 << 80) | (me << 24)
        if c10.dec50(v) is not None or c10.dec60(v) is not None:
            look.append(me)
    for k, me in enumerate(look):
        icao = r.choice(ICAOS)
        for o in ({"U": 1, "R": 1}, {"R": 1}, {"U": 1}, {}):
            segs = [seg(0, [g.f_df11(icao, ca=5)]), seg(0, [g.f_df17(icao, me)]), seg(0, [g.f_df17(icao, me)])]
            cases.append(H("C09-k%d-%s" % (k, "".join(sorted(o)) or "n"), dict(o), segs))
    # a rate taken from a Comm-B BDS 6,0 reply (-R) is not kept when a later velocity squitter says "no rate information"
    # (rate field 0, either sign bit); nor are speed/track kept when a component field is 0
    for i in range(16 if tier == "quick" else 160):
        icao = r.choice(ICAOS)
        o = r.choice([{"R": 1}, {"R": 1}, {"R": 1, "U": 1}])
        first = g.f_df17(icao, me_velocity(1, r.randint(0, 1), r.randint(1, 1023), r.randint(0, 1), r.randint(1, 1023), r.randint(0, 1), r.randint(0, 1), r.randint(2, 511)))
        mb = bds60((r.randint(0, 1), r.randint(1, 1023)), r.randint(1, 500), r.randint(1, 250), (r.randint(0, 1), r.randint(1, 200)), (r.randint(0, 1), r.randint(1, 200)))
        reply = g.f_long(r.choice([20, 21]), icao, None, mb)
        zero_what = i % 3
        last = g.f_df17(icao, me_velocity(r.choice([1, 2]), r.randint(0, 1), 0 if zero_what == 1 else r.randint(1, 1023), r.randint(0, 1),
                                          0 if zero_what == 2 else r.randint(1, 1023), r.randint(0, 1), r.randint(0, 1),
                                          0 if zero_what == 0 else r.randint(1, 511)))
        segs = ([seg(0, [first])] if i % 2 else []) + [seg(0, [g.f_df11(icao, ca=5)]), seg(0, [reply]), seg(0, [last])]
        cases.append(H("C09-b%d" % i, dict(o), segs))
    # in ONE reader run: velocity squitters of different aircraft whose component / rate fields differ in a single bit: every
    # frame is decoded from its own bits, nothing is remembered from the previous frame
    for i in range(22 if tier == "quick" else 220):
        pool = r.sample(ICAOS, 4)
        st = r.choice([1, 1, 2])
        base = [r.randint(0, 1), r.randint(1, 1023), r.randint(0, 1), r.randint(1, 1023), r.randint(0, 1), r.randint(0, 1), r.randint(1, 511)]
        width = [1, 10, 1, 10, 1, 1, 9]
        lines = []
        for k, a in enumerate(pool):
            f = list(base)
            if k % 2:
                bit = (i + k) % 33
                for j, w in enumerate(width):
                    if bit < w:
                        f[j] ^= 1 << bit
                        break
                    bit -= w
            lines.append(g.f_df17(a, me_velocity(st, *f)))
        o = {"U": 1} if i % 2 else {}
        cases.append(H("C09-n%d" % i, o, [seg(0, lines)]))
    # through the pipeline: first and n-th frame, +/-U
    for i in range(150 if tier == "quick" else 1500):
        icao = r.choice(ICAOS)
        o = {"U": 1} if r.random() < 0.5 else {}
        segs = []
        if r.random() < 0.5:
            segs.append(seg(0, [g.any_frame(icao)]))
        for _ in range(r.randint(1, 4)):
            segs.append(seg(0, [g.f_df17(icao, g.me_velocity(r.choice([1, 2])))]))
        cases.append(H("C09-h%d" % i, o, segs))
    return cases


def expect(v, nb):
    st = getbits(v, nb, 38, 40)
    dew, vew, dns, vns = getbits(v, nb, 46, 46), getbits(v, nb, 47, 56), getbits(v, nb, 57, 57), getbits(v, nb, 58, 67)
    svr, vr = getbits(v, nb, 69, 69), getbits(v, nb, 70, 78)
    e = {}
    e["vr"] = "-" if vr == 0 else str((-1 if svr else 1) * 64 * (vr - 1))
    if st in (1, 2):
        if vew == 0 or vns == 0:
            e["gs"], e["trk"] = "-", {"-"}
        else:
            a, b = vew - 1, vns - 1
            gs = math.isqrt(a * a + b * b) * (4 if st == 2 else 1)
            e["gs"] = str(gs)
            if a == 0 and b == 0:
                e["trk"] = None   # direction of a zero vector is unconstrained
            else:
                x = -a if dew else a
                y = -b if dns else b
                ang = math.degrees(math.atan2(x, y))
                t = math.floor(ang)
                acc = {str(t % 360)}
                if abs(ang - round(ang)) < 1e-9:
                    acc.add(str((round(ang) - 1) % 360))
                    acc.add(str(round(ang) % 360))
                e["trk"] = acc
    return st, e


def check_row(v, nb, row):
    st, e = expect(v, nb)
    if row.get("vr") != e["vr"]:
        return "vertical rate %s expected %s" % (row.get("vr"), e["vr"])
    if st in (1, 2):
        if row.get("gs") != e["gs"]:
            return "ground speed %s expected %s" % (row.get("gs"), e["gs"])
        if e["trk"] is not None and row.get("trk") not in e["trk"]:
            return "track %s expected %s" % (row.get("trk"), sorted(e["trk"]))
    return None


def oracle(parts, outcome, obs):
    if outcome.replace("+slow", "") != "ok":
        return "outcome %s" % outcome
    import sqcmp
    if parts[1] == "V":
        st, sew, sns, lo, hi = [int(x) for x in parts[3].split(":")[:5]]
        toks = obs.split(" ")
        mul = 4 if st == 2 else 1
        deg, atan2, isqrt, floor = math.degrees, math.atan2, math.isqrt, math.floor
        i = 0
        for vew in range(lo, hi):
            for vns in range(1024):
                tok = toks[i]
                i += 1
                if vew == 0 or vns == 0:
                    if tok != "-.-":
                        return "Vew field %d, Vns field %d (a field of 0 is no information): shows %s" % (vew, vns, tok)
                    continue
                a, b = vew - 1, vns - 1
                gs = isqrt(a * a + b * b) * mul
                if a == 0 and b == 0:
                    if not tok.endswith(".%d" % gs):
                        return "fields %d/%d: ground speed in %s, expected %d" % (vew, vns, tok, gs)
                    continue
                ang = deg(atan2(-a if sew else a, -b if sns else b))
                t = floor(ang) % 360
                if tok != "%d.%d" % (t, gs):
                    if abs(ang - round(ang)) < 1e-9 and tok in ("%d.%d" % ((round(ang) - 1) % 360, gs), "%d.%d" % (round(ang) % 360, gs)):
                        continue
                    return "subtype %d, E/W sign %d field %d, N/S sign %d field %d: shows track.speed %s, expected %d.%d" % (st, sew, vew, sns, vns, tok, t, gs)
        return None
    if parts[1] == "M":
        frames = parts[3].split(":", 1)[1].split(",")
        rows = obs.split("#")
        if len(rows) != len(frames):
            return "rows %d frames %d" % (len(rows), len(frames))
        for f, r in zip(frames, rows):
            v = int(f, 16)
            bad = check_row(v, 112, sqcmp.parse_row(r))
            if bad:
                return "frame %s: %s" % (f, bad)
        return None
    segs = pyspec.case_segments(parts)
    osegs = obs.split("#")
    for k, (t, lines) in enumerate(segs):
        rows = pyspec.rows_of(osegs[k]) if k < len(osegs) else {}
        for ln in lines:
            fr = pyspec.frame_of_line(ln)
            if fr and fr != "zero" and fr[0] == 17 and getbits(fr[2], 112, 33, 37) == 19:
                bad = check_row(fr[2], 112, rows.get(fr[1], {}))
                if bad:
                    return "segment %d frame %s: %s" % (k, ln.decode(), bad)
    return None


CLAIM = {
    "text": "Theorems C09_vrate / C09_velocity / C09_gs_floor_sqrt / C09_track_floor_atan2 / C09_update / C09_downlink (Coq): for every 112-bit frame the vertical rate is +/-64*(field-1) (none for field 0) and ground speed / track are the specified functions of the signed components (none when a component field is 0); the ground speed is the integer floor of the square root; the integer track procedure equals floor(atan2(Vew,Vns)) in degrees normalised to [0,360) as a statement in the real numbers; the values reach the row on both update paths. Tied to the code on axes, diagonals, both neighbours of every integer-degree direction, random vectors, all 2x512 vertical-rate codes, first and later frames, both paths, dev and release builds. A velocity squitter that creates the row delivers its values (C09_new_row); the implementation's velocity decoder is swept over all 4.2 / 8.4 million sign-magnitude pairs (kind V).",
    "note": "C09_track_floor_atan2 depends on the standard library's real-number axioms (listed in the evidence). libm's atan2().to_degrees().floor() is tied to the proved integer procedure by execution only.",
    "technique": "Coq proof: RangeSpec rewriting for the decoders; Interval-proved tan enclosures + reflection gap check for floor(atan2); differential runs",
}


def skip_case(parts, impl, model):
    """kind V is an implementation-only sweep (the model's decoder is covered by the theorems and the sampled cases)"""
    return parts[1] == "V"
