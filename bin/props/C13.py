"""C13 -- unusable lines affect nothing but themselves."""
from sqgen import *
import pyspec

ID = "C13"
TARGETS = ["Properties/C13.vo"]
FIELDS = None  # full row: the junk-laden and the clean stream must give the same table
EXPLANATION = ("theorem: processing any stream = processing the subsequence of its effective lines (state incl. counters), "
               "junk is the identity; correspondence + impl-vs-impl oracle on clean vs junk-laden streams, file blobs with "
               "CRLF / lone CR / NUL / non-UTF-8 / >64 KiB lines / missing final newline")
ASSUMPTIONS = ["BufRead::lines and str::from_utf8 are modelled from their documentation (split at LF, Unicode table 3-7) and tied by execution"]


def junk(g):
    r = g.r
    k = r.randint(0, 11)
    if k == 0:
        return b"\xff" * r.randint(1, 4)
    if k == 1:
        return bytes([r.randint(0x80, 0xFF) for _ in range(r.randint(1, 30))])
    if k == 2:
        return b"\x00" * r.randint(1, 8)
    if k == 3:
        return b"\r"
    if k == 4:
        return b"A" * 70000
    if k == 5:
        return b"\xc0\xaf"            # overlong
    if k == 6:
        return b"\xed\xa0\x80"        # surrogate
    if k == 7:
        return b"\xf4\x90\x80\x80"    # > U+10FFFF
    if k == 8:
        f = g.any_frame()
        return f.encode()[: r.randint(1, len(f) - 1)]  # truncated frame
    if k == 9:
        return g.any_frame().encode() + b"\xfe"  # valid frame spoiled by one byte
    return g.junk_line()


def gen(seed, tier):
    g = Gen(seed * 1000003 + 13)
    r = g.r
    cases = []
    n = 150 if tier == "quick" else 1500
    for i in range(n):
        pool = r.sample(ICAOS, r.randint(1, 3))
        clean = [g.decorate(g.any_frame(r.choice(pool))).encode("latin-1") for _ in range(r.randint(1, 12))]
        dirty = []
        for ln in clean:
            for _ in range(r.choice([0, 0, 1, 2])):
                dirty.append(junk(g))
            dirty.append(ln)
        for _ in range(r.choice([0, 1, 3])):
            dirty.append(junk(g))
        # junk must not contain LF (it would be two lines, possibly an accepted one)
        dirty = [d.replace(b"\n", b"") if d not in clean else d for d in dirty]
        # junk must really be junk: random bytes can happen to contain 14 hex digits of an address/parity format
        dirty = [d if (d in clean or pyspec.frame_of_line(d) is None) else b"#" + d[:5] for d in dirty]
        o = g.random_opts()
        o.pop("O", None)
        o.pop("f", None)
        eol = r.choice([b"\n", b"\r\n"])
        last_nl = r.random() < 0.7
        cb = eol.join(clean) + (eol if last_nl else b"")
        db = eol.join(dirty) + (eol if last_nl else b"")
        cases.append(H("C13-%d-a" % i, o, [blob(0, cb)]))
        cases.append(H("C13-%d-b" % i, o, [blob(0, db)]))
    # comment-like lines of valid UTF-8 with a multi-byte character starting at every byte offset 0..140 (buffer and
    # truncation boundaries), of every encoded width, between accepted frames
    offs = list(range(0, 141))
    for w, ch in enumerate(["é", "€", "😀"]):
        for part in range(3 if tier == "quick" else 12):
            pool = r.sample(ICAOS, 3)
            clean, dirty = [], []
            for off in offs[part::(3 if tier == "quick" else 12)] if tier != "quick" else offs[part::3]:
                f = g.any_frame(r.choice(pool)).encode()
                dirty.append(g.text_line(off, ch, r.choice([0, 1, 70])))
                clean.append(f)
                dirty.append(f)
            cases.append(H("C13-u%d-%d-a" % (w, part), {}, [blob(0, b"\n".join(clean) + b"\n")]))
            cases.append(H("C13-u%d-%d-b" % (w, part), {}, [blob(0, b"\n".join(dirty) + b"\n")]))
    # over-long lines whose tail after 2^k bytes is a well-formed frame, and frames whose first digit is replaced by a sign or
    # radix prefix (what a numeric parser would accept): each between accepted frames, file source
    pool = r.sample(ICAOS, 3)
    specials = []
    for n_ in (1024, 4096, 8192, 16384, 32768, 65536, 131072):
        for fill in (b"A", b"z", b"0"):
            specials.append(fill * n_ + g.f_df17().encode())
            specials.append(fill * n_ + ("%012X" % r.getrandbits(48) + g.f_df17()).encode())
    for pre in ("+", "-", "+0", "0x", " +", "\t+"):
        for mk in (lambda: g.f_short(0), lambda: g.f_short(4), lambda: g.f_short(5), lambda: g.f_df17(), lambda: g.f_df11()):
            specials.append((pre + mk()[1:]).encode())
    specials = [x for x in specials if pyspec.frame_of_line(x) is None]
    step = 1
    for part in range(0, len(specials), 12 * step):
        clean, dirty = [], []
        for j in specials[part:part + 12 * step:step]:
            f = g.any_frame(r.choice(pool)).encode()
            dirty += [j, f]
            clean.append(f)
        cases.append(H("C13-v%d-a" % part, {}, [blob(0, b"\n".join(clean) + b"\n")]))
        cases.append(H("C13-v%d-b" % part, {}, [blob(0, b"\n".join(dirty) + b"\n")]))
    # tens of thousands of junk lines in an unbroken run between two frames (the skip must be a loop)
    for i, nj in enumerate([30000] if tier == "quick" else [30000, 120000]):
        fa, fb = g.f_df17().encode(), g.f_df17().encode()
        run = b"\n".join(r.choice([b"", b"x", b"#", b"8D", b"\xff"]) for _ in range(nj))
        cases.append(H("C13-r%d-a" % i, {}, [blob(0, fa + b"\n" + fb + b"\n")]))
        cases.append(H("C13-r%d-b" % i, {}, [blob(0, fa + b"\n" + run + b"\n" + fb + b"\n")]))
    # the same accepted line twice, with junk in between or not: junk does not change how the repeat is treated
    for i in range(12 if tier == "quick" else 120):
        icao = r.choice(ICAOS)
        f = r.choice([g.f_long(21, icao), g.f_long(20, icao), g.f_short(5, icao), g.f_df17(icao, g.me_airpos())]).encode()
        other = g.f_df17().encode()
        j = junk(g).replace(b"\n", b"")
        if pyspec.frame_of_line(j) is not None:
            j = b"#"
        o = {"U": 1} if i % 2 else {}
        cases.append(H("C13-d%d-a" % i, o, [blob(0, b"\n".join([f, f, other]) + b"\n")]))
        cases.append(H("C13-d%d-b" % i, o, [blob(0, b"\n".join([f, j, f, other]) + b"\n")]))
    # junk between frames of other aircraft while one aircraft is stale: the sweep must come after the same
    # number of ACCEPTED frames in both streams (junk does not count)
    for i in range(60 if tier == "quick" else 600):
        d = r.choice([0, 1, 5])
        pool = r.sample(ICAOS, 4)
        first = [g.any_frame(pool[0]).encode()]
        k = r.randint(8, 14)
        clean = [g.any_frame(r.choice(pool[1:])).encode() for _ in range(k)]
        dirty = []
        for ln in clean:
            for _ in range(r.choice([0, 1, 1, 2])):
                j = junk(g).replace(b"\n", b"")
                dirty.append(j if pyspec.frame_of_line(j) is None else b"#")
            dirty.append(ln)
        o = {"d": d}
        if r.random() < 0.5:
            o["U"] = 1
        t2 = d * 1000 + 1000
        cases.append(H("C13-s%d-a" % i, o, [seg(0, first), seg(t2, clean)]))
        cases.append(H("C13-s%d-b" % i, o, [seg(0, first), seg(t2, dirty)]))
    return cases


def oracle(parts, outcome, obs):
    if outcome.replace("+slow", "") != "ok":
        return "outcome %s" % outcome
    return None


def oracle_all(idx, impl):
    out = []
    for cid in idx:
        if not cid.endswith("-a"):
            continue
        other = cid[:-2] + "-b"
        if cid in impl and other in impl:
            a, b = impl[cid], impl[other]
            if a[0].replace("+slow", "") == "ok" and b[0].replace("+slow", "") == "ok" and a[1] != b[1]:
                import sqcmp
                ra, rb = sqcmp.parse_obs(a[1]), sqcmp.parse_obs(b[1])
                ka = [x.get("key") for x in ra[-1]]
                kb = [x.get("key") for x in rb[-1]]
                out.append((other, "table from the junk-laden stream differs from the table of the clean stream: keys %s vs %s" % (kb, ka)))
    return out


CLAIM = {
    "text": "Theorems C13_accepted_subsequence / C13_junk_is_identity / C13_not_utf8 (Coq, closed): for every option record, time, state and list of chunks, running the reader loop equals running it on the subsequence of effective lines (valid UTF-8, taken as a frame, non-zero address, passing -f); an ineffective chunk is the identity on table and counters and prints nothing. AT THE BYTE LEVEL (C13_junk_line_insertion / _state / C13_junk_tail / C13_junk_lines_weave / _last): inserting any junk bytes without LF, plus their LF, at any line boundary of any byte stream -- once or any number of times, with or without a final newline -- leaves the result of read_lines (table and counters) unchanged; byte-level sufficient conditions for junk are proved: not valid UTF-8, a hex-digit count other than 14/26/28/40 whatever else the line holds, the empty line, a lone CR, no hex digit, more than 40 hex digits, fewer than 14 bytes (C13_not_utf8_bytes, C13_wrong_hex_count, C13_empty_line, C13_lone_cr, C13_no_hex, C13_over_long, C13_truncated). Tied to the code by comparing, on the real reader thread, clean streams with the same streams laden with junk (NUL, 0x80-0xFF, overlong/surrogate UTF-8, lone CR, truncated frames, 70 kB lines, CRLF, missing final newline, comment lines with a multi-byte character at every byte offset 0..140), and both with the extracted model.",
    "note": "Line splitting and UTF-8 validation of the standard library are modelled (Model/Line.v) and tied by execution; the TCP source is covered under C18.",
    "technique": "Coq proof by induction over arbitrary line lists + totality; differential runs (impl vs model and impl clean vs impl junk-laden)",
}
