"""C16 -- DF filter admits only the listed formats; DF counters are exact."""
from sqgen import *
import os
import pyspec

ID = "C16"
TARGETS = ["Properties/C16.vo"]
FIELDS = ["key", "ldf"]
NEED_CLI = True
EXPLANATION = ("theorems: only listed DFs are applied, unlisted/rejected lines are the identity on table and counters, counters "
               "equal the number of applied lines per DF for every stream (induction); correspondence on CLI frames (counter "
               "line) and tables for streams mixing all 32 DF values under every -f shape, +/- -c")
ASSUMPTIONS = ["counters are per read_lines call (per TCP connection)"]


def stream(g, n):
    r = g.r
    pool = r.sample(ICAOS, 3)
    out = []
    for _ in range(n):
        x = r.random()
        if x < 0.06:
            # accepted frames whose address is zero must be neither applied nor counted
            out.append(r.choice([hx(df17(0, g.me_ident()), 112), hx(short_ap(r.choice([0, 4, 5]), 0, r.getrandbits(27)), 56),
                                 hx(df11(0, 5), 56), hx(long_ap(r.choice([16, 20, 21]), 0, r.getrandbits(27), r.getrandbits(56)), 112)]))
        elif x < 0.1:
            out.append(g.junk_line())
        elif x < 0.15:
            out.append(g.corrupt(g.any_frame(r.choice(pool))))
        else:
            out.append(g.any_frame(r.choice(pool)))
    return out


def gen(seed, tier):
    g = Gen(seed * 1000003 + 16)
    r = g.r
    cases = []
    dfs = [0, 4, 5, 11, 16, 17, 18, 20, 21, 24, 1, 19]
    n = 60 if tier == "quick" else 600
    for i in range(n):
        k = r.randint(0, 5)
        o = {"i": r.choice(["", "e", "aAews"]) or "x", "u": -1, "o": "x"}
        if k == 1:
            o["f"] = str(r.choice(dfs))
        elif k == 2:
            o["f"] = "+".join(str(x) for x in r.sample(dfs, 2))
        elif k == 3:
            o["f"] = "+".join(str(x) for x in dfs)
        elif k == 4:
            o["f"] = str(r.choice([99, 7, 31]))
        if i % 4 == 0:
            # -f takes any u32: values that agree with a format only modulo 32 / 64 / 2^k, or are simply huge, list nothing
            alias = [str(r.choice(dfs) + r.choice([32, 64, 96, 256, 65536, 2 ** 31, 2 ** 32 - 32])) for _ in range(r.randint(1, 3))]
            o["f"] = "+".join(([o["f"]] if "f" in o and r.random() < 0.6 else []) + alias)
        if r.random() < 0.75:
            o["c"] = 1
        if r.random() < 0.5:
            o["U"] = 1
        if r.random() < 0.35:
            o["M"] = r.choice(["17", "4+5", "99", "11+17+20"])
        cases.append(("C16-c%d" % i, "C", opts_str(o), seg(0, stream(g, r.randint(1, 40)))))
    for i in range(n):
        o = {}
        if r.random() < 0.8:
            o["f"] = "+".join(str(x) for x in r.sample(dfs, r.randint(1, 4)))
        if r.random() < 0.5:
            o["U"] = 1
        if r.random() < 0.35:
            o["M"] = r.choice(["17", "4+5", "99"])
        cases.append(H("C16-h%d" % i, o, [seg(0, stream(g, r.randint(1, 30)))]))
    # more frames of one format than fit 16 bits: the count stays exact (implementation only: the oracle reads the last line)
    if True:
        f17 = g.f_df17(r.choice(ICAOS), g.me_ident())
        nbig = 65540 + r.randint(0, 40)
        lines = [f17] * nbig + [g.f_short(4, r.choice(ICAOS)), g.f_df11(r.choice(ICAOS))]
        cases.append(("C16-big!nomodel", "C", opts_str({"i": "x", "u": -1, "o": "x", "c": 1}), seg(0, lines)))
    # frames the filter rejects do not drive the expiry sweep either: --delete-after 0 makes every sweep visible
    for i in range(10 if tier == "quick" else 100):
        o = {"d": 0, "f": "+".join(str(x) for x in r.sample([4, 5, 11, 17, 20, 21], r.randint(1, 3)))}
        if i % 2:
            o["U"] = 1
        if i % 3 == 0:
            o["c"] = 1
        cases.append(H("C16-s%d" % i, o, [seg(0, stream(g, r.randint(12, 60)))]))
        cases.append(("C16-t%d" % i, "C", opts_str(dict(o, i="x", u=-1, o="x")), seg(0, stream(g, r.randint(12, 60)))))
    return cases


def expected(parts):
    opts = pyspec.case_opts(parts)
    counts = {}
    keys = set()
    sweeping = int(opts.get("d", "60")) <= 0     # --delete-after <= 0: the sweep (12th applied frame, then every 11th) empties the table
    for t, lines in pyspec.case_segments(parts):
        applied = 0
        for ln in lines:
            fr = pyspec.frame_of_line(ln)
            if not fr or fr == "zero":
                continue
            df, icao = fr[0], fr[1]
            if not pyspec.passes_filter(opts, df):
                continue
            counts[df] = counts.get(df, 0) + 1
            keys.add(icao)
            applied += 1
            if sweeping and applied >= 12 and (applied - 12) % 11 == 0:
                keys = set()
    return opts, counts, keys


def oracle(parts, outcome, obs):
    if outcome.replace("+slow", "") != "ok":
        return "outcome %s" % outcome
    opts, counts, keys = expected(parts)
    if parts[1] == "C":
        frames = obs.split("\x1e") if obs else []
        if not counts:
            return None if not frames else "frames printed although no frame was applied"
        if not frames:
            return "nothing was printed although %d frames pass the filter" % sum(counts.values())
        lines = frames[-1].split("\x1d")
        want = "".join("DF%d:%d " % (d, counts[d]) for d in sorted(counts))
        if opts.get("c") == "1":
            if lines[-1] != want:
                return "counter line %r, expected %r" % (lines[-1], want)
        else:
            if lines[-1].startswith("DF"):
                return "counter line printed without -c"
        seps = [i for i, l in enumerate(lines) if l.startswith("------")]
        rows = lines[seps[0] + 1:seps[1]] if len(seps) >= 2 else []
        got = set(int(l[:6], 16) for l in rows)
        if got != keys:
            return "rows %s, expected aircraft %s" % (sorted("%06X" % x for x in got), sorted("%06X" % x for x in keys))
        return None
    last = obs.split("#")[-1]
    got = set(pyspec.rows_of(last).keys())
    if got != keys:
        return "table keys %s, expected %s (filter %s)" % (sorted("%06X" % x for x in got), sorted("%06X" % x for x in keys), opts.get("f"))
    return None


# ---- counter capacity -------------------------------------------------------------------------------------------
# C16_counter_capacity / C16_counters_fit tie the model's unbounded counters to the declared integer type of df_count.
# When that theorem no longer checks (or when VERIF_COUNTER_SOAK=1) the implementation is searched for a stream on
# which a counter leaves the exact count: one valid DF17 frame repeated through a FIFO, counter lines read from the
# refreshes.  Quick tier: up to 70 000 frames (8/16-bit counters); thorough tier or VERIF_COUNTER_SOAK=1: 2^32 + 2^22
# frames (about 70 minutes at 10^6 frames/s; release profile only).
SEARCHING = [False]


def gen_search(seed, tier):
    SEARCHING[0] = tier
    return []


def counter_soak(exe, n, timeout, upd="1"):
    import subprocess, threading, tempfile, time, vcore
    d = tempfile.mkdtemp(prefix="c16soak", dir=vcore.BUILD)
    fifo = os.path.join(d, "feed")
    os.mkfifo(fifo)
    line = (hx(df17(0x4840D6, 0x202CC371C32CE0), 112) + "\n").encode()
    chunk = line * 50000

    def writer():
        try:
            with open(fifo, "wb") as f:
                for _ in range(n // 50000):
                    f.write(chunk)
                f.write(line * (n % 50000))
        except (BrokenPipeError, OSError):
            pass
    p = subprocess.Popen([exe, "-s", fifo, "-c", "-u=" + upd, "-o", "x"], stdout=subprocess.PIPE, stderr=subprocess.PIPE)
    t = threading.Thread(target=writer, daemon=True)
    t.start()
    prev, bad, t0 = 0, None, time.time()
    for l in p.stdout:
        if l.startswith(b"DF17:"):
            try:
                v = int(l.split()[0][5:])
            except ValueError:
                bad = "counter line %r" % l
                break
            if v < prev or v <= 0 or v > n:
                bad = "after %d counted DF17 frames the counter line shows DF17:%d (stream: %d copies of %s)" % (prev, v, n, line.decode().strip())
                break
            prev = v
        if time.time() - t0 > timeout:
            break
    p.kill()
    err = p.stderr.read()[-300:].decode("utf-8", "replace")
    rc = p.wait()
    if bad is None and b"panicked" in err.encode():
        bad = "panic after about %d counted DF17 frames: %s" % (prev, err)
    try:
        os.unlink(fifo); os.rmdir(d)
    except OSError:
        pass
    return bad


def extra_checks(profile):
    import vcore
    soak = os.environ.get("VERIF_COUNTER_SOAK") == "1"
    if not (SEARCHING[0] or soak):
        return []
    exe = os.path.join(vcore.TARGET, profile, "squitterator")
    if soak or SEARCHING[0] == "thorough":
        if profile != "release":
            return []
        n, to = 2 ** 32 + 2 ** 22, 4 * 3600
    else:
        n, to = 70000, 300
    bad = counter_soak(exe, n, to, "1" if n > 10 ** 6 else "-1")
    return [("C16-counter-capacity", bad)] if bad else []


CLAIM = {
    "text": "Theorems C16_filter_admits_only_listed / C16_unlisted_inert / C16_counters_exact, C16_counters_fit / C16_counter_capacity (the exact count fits the integer type declared for df_count, regenerated from src/counters.rs, for every stream of fewer than 2^63 lines -- defect D14 was the i32 it had) (Coq, closed): for every stream and option record a line is applied only if its DF is listed under -f, every other line leaves table and counters unchanged, and after any stream the counter of each DF equals the number of applied lines of that DF (ascending keys, positive counts; nothing is counted without -c); conversely a frame with a non-zero address whose DF is listed IS applied, from any state, and the outcome depends only on the SET of listed formats, not on their order or repetition (C16_applied_iff, C16_listed_is_applied, C16_filter_order_irrelevant). Tied to the code through the built CLI (last counter line, rows) and the reader thread on streams mixing all DF values, every -f shape, +/- -c.",
    "note": "Counters live for one read_lines call. Printing of the counter line is modelled in Model/Display.v and compared with CLI stdout.",
    "technique": "Coq proof by induction over arbitrary line lists (multiset-count invariant); CLI/reader differential runs + python oracle",
}


def skip_case(parts, impl, model):
    return parts[0].endswith("!nomodel")
