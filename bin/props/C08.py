"""C08 -- airborne position is the correct global CPR decode or is left unchanged."""
import math
from sqgen import *
import sqlib
import pyspec

ID = "C08"
TARGETS = ["Properties/C08.vo"]
COQCHK_NOREC = True     # coqchk of the full closure (Interval, Reals) takes > 45 min without vm: only the property file is re-checked
FIELDS = ["key", "lat", "lon", "dist", "pt", "cl0", "cl1", "co0", "co1", "cs"]
EXPLANATION = ("theorems: the position changes only under the pairing guard (both slots filled, same kind, < 10 whole seconds apart, equal NL, "
               "range) and is then the CPR decode anchored on the newer frame with the distance tag of the configured observer; the NL table "
               "regenerated from position.rs is the DO-260B transition-latitude table (Interval brackets per entry). Correspondence + oracle: "
               "true positions over every NL zone and both sides of every boundary, equator, poles cap, antimeridian, both parities first, "
               "delays around 10 s, other frames interleaved, +/-U, observers with blanks; decoded position within 20 m of the truth")
ASSUMPTIONS = ["the f64 arithmetic of cpr_location is modelled in exact rationals; cases closer than 1e-4 deg to an NL boundary are not generated "
               "(except explicit straddling pairs with a 0.01 deg margin)",
               "the numerical accuracy statement (within 20 m) is checked by the oracle on every generated pair, not proved for all positions",
               "haversine is evaluated by the comparer/oracle in double precision"]
TRUSTED = ["standard-library real-number axioms for the NL table theorem (Interval)"]

NLB = None


def nl_boundaries():
    global NLB
    if NLB is None:
        NLB = []
        for k in range(2, 60):
            a = 1 - math.cos(math.pi / 30)
            b = 1 - math.cos(2 * math.pi / k)
            NLB.append((k, math.degrees(math.acos(math.sqrt(a / b))) if k > 2 else 87.0))
    return NLB


def hav(lat1, lon1, lat2, lon2):
    return pyspec_hav(lat1, lon1, lat2, lon2)


def pyspec_hav(lat1, lon1, lat2, lon2):
    r = 6371.0
    la1, lo1, la2, lo2 = map(math.radians, (lat1, lon1, lat2, lon2))
    a = math.sin((la2 - la1) / 2) ** 2 + math.cos(la1) * math.cos(la2) * math.sin((lo2 - lo1) / 2) ** 2
    return 2 * r * math.asin(min(1.0, math.sqrt(a)))


def positions(g, tier):
    r = g.r
    out = []
    for k, b in nl_boundaries():
        for s in (1, -1):
            out.append(("in", s * (b - 0.05), r.uniform(-180, 180)))
            out.append(("in", s * (b + 0.05), r.uniform(-180, 180)))
            out.append(("straddle", s * b, r.uniform(-180, 180)))
    out += [("in", 0.001, 0.001), ("in", -0.001, -0.001), ("in", 0.0005, 179.999), ("in", 45.0, -179.999), ("in", -45.0, 179.9995),
            ("in", 86.9, 10.0), ("in", -86.9, -10.0), ("in", 52.2572, 3.91937), ("in", 1e-5, 90.0)]
    for _ in range(40 if tier == "quick" else 600):
        out.append(("in", r.uniform(-86.9, 86.9), r.uniform(-180, 180)))
    return out


def near_boundary(lat, margin=1e-3):
    return any(abs(abs(lat) - b) < margin for _, b in nl_boundaries())


def gen(seed, tier):
    g = Gen(seed * 1000003 + 8)
    r = g.r
    cases = []
    n = 0
    for kind, lat, lon in positions(g, tier):
        for rep in range(1 if tier == "quick" else 2):
            icao = r.choice(ICAOS)
            o = {}
            if r.random() < 0.5:
                o["U"] = 1
            obs = None
            if r.random() < 0.7:
                olat, olon = r.uniform(-80, 80), r.uniform(-179, 179)
                pad = lambda s: (" " * r.randint(0, 2)) + s + (" " * r.randint(0, 2))
                o["O"] = (pad("%.5f" % olat) + "," + pad("%.5f" % olon)).encode().hex().upper()
            truth = []
            segs = []
            t = 0
            if r.random() < 0.3:
                segs.append(seg(t, [g.f_df11(icao)]))
                truth.append(None)
            nfr = r.randint(2, 5)
            parity = r.randint(0, 1)
            for j in range(nfr):
                if kind == "straddle":
                    # the two parities sit on different sides of the boundary (0.01 deg margin)
                    la = lat + (0.01 if (parity == 0) == (lat > 0) else -0.01) * (1 if lat > 0 else -1) * (1 if j % 2 == 0 else -1)
                    la = lat + (0.01 if parity else -0.01)
                else:
                    la = lat + r.uniform(-0.005, 0.005)
                    if near_boundary(la):
                        la = lat
                lo = ((lon + r.uniform(-0.01, 0.01) + 180) % 360) - 180
                x = r.random()
                if x < 0.12:
                    segs.append(seg(t, [g.f_df17(icao, g.me_velocity())]))
                    truth.append(None)
                elif x < 0.2:
                    segs.append(seg(t, [g.f_df17(icao, g.me_surfpos(la, lo, parity))]))
                    truth.append(("surf", parity))
                    parity ^= r.randint(0, 1)
                else:
                    tc = r.randint(9, 18)
                    me = g.me_airpos(la, lo, parity, tc, r.randint(40, 2000))
                    if r.random() < 0.2:
                        # the altitude field says "no altitude" (all zero, below 0 ft) or is a Gillham code: the CPR half counts all the same
                        me = (me & ~(0xFFF << 36)) | (r.choice([0, 0x010, 0x030, 0x008, 0x1A2 & ~0x10]) << 36)
                    if r.random() < 0.1:
                        # exactly on a zone meridian / parallel: one CPR field is 0 ("not received")
                        which = r.choice([17, 0])
                        me &= ~(0x1FFFF << which)
                    segs.append(seg(t, [g.f_df17(icao, me)]))
                    truth.append(("air", parity, round(la, 7), round(lo, 7)))
                    parity ^= 1 if r.random() < 0.85 else 0
                t += r.choice([0, 500, 1000, 5000, 9500, 10000, 10500, 15000, 60000])
            tid = "C08-%d@%s" % (n, ";".join("-" if x is None else ",".join(str(y) for y in x) for x in truth))
            cases.append(H(tid, o, segs))
            n += 1
    return cases


def oracle(parts, outcome, obs):
    if outcome.replace("+slow", "") != "ok":
        return "outcome %s" % outcome
    truth = [None if x == "-" else x.split(",") for x in parts[0].split("@", 1)[1].split(";")]
    opts = pyspec.case_opts(parts)
    segs = pyspec.case_segments(parts)
    osegs = obs.split("#")
    observer = None
    if "O" in opts:
        s = bytes.fromhex(opts["O"]).decode()
        a, b = s.split(",")
        observer = (float(a.replace(" ", "")), float(b.replace(" ", "")))
    slot = {0: None, 1: None}     # parity -> (kind, t, true lat, true lon)
    prev = ("0.0000000000", "0.0000000000", "-")
    fails = []
    for k, (t, lines) in enumerate(segs):
        rows = pyspec.rows_of(osegs[k]) if k < len(osegs) else {}
        if not rows:
            return fails + ["segment %d: no row" % k]
        row = list(rows.values())[0]
        cur = (row["lat"], row["lon"], row["dist"])
        la, lo = float(row["lat"]), float(row["lon"])
        if not (-90 <= la <= 90 and -180 <= lo <= 180):
            fails.append("segment %d: position out of range %s %s" % (k, row["lat"], row["lon"]))
        tr = truth[k]
        expect_commit = False
        if tr and tr[0] in ("air", "surf"):
            par = int(tr[1])
            fr = pyspec.frame_of_line(lines[0]) if lines else None
            # a CPR field that is exactly 0 counts as not received (property text): such a slot supports no pair
            zero = bool(fr and fr != "zero" and (getbits(fr[2], 112, 55, 71) == 0 or getbits(fr[2], 112, 72, 88) == 0))
            slot[par] = (tr[0], t) + ((float(tr[2]), float(tr[3])) if tr[0] == "air" else (None, None)) + (zero,)
            other = slot[1 - par]
            if tr[0] == "surf" and other and other[0] == "surf" and abs(t - other[1]) // 1000 < 10:
                expect_commit = None     # a surface pair: outside the property (TC 9-18), its decoding is not judged
            elif tr[0] == "air" and other and other[0] == "air" and abs(t - other[1]) // 1000 < 10 and not zero and not other[4]:
                nl_a = sqlib._nl(slot[par][2])
                nl_b = sqlib._nl(other[2])
                # zone of the *recovered* latitudes; away from boundaries this is the zone of the true latitudes
                if nl_a == nl_b and not near_boundary(slot[par][2], 2e-3) and not near_boundary(other[2], 2e-3):
                    expect_commit = True
                    dist_m = pyspec_hav(la, lo, slot[par][2], slot[par][3]) * 1000
                    if dist_m > 20:
                        fails.append("segment %d: shown position (%s,%s) is %.1f m from the encoded position (%s,%s)" % (k, row["lat"], row["lon"], dist_m, tr[2], tr[3]))
                    if observer:
                        want = pyspec_hav(la, lo, observer[0], observer[1])
                        if row["dist"] == "-" or abs(float(row["dist"]) - want) > 1e-3:
                            fails.append("segment %d: distance %s, great-circle distance to the observer is %.4f" % (k, row["dist"], want))
                    elif row["dist"] != "-":
                        fails.append("segment %d: distance shown without an observer" % k)
                elif nl_a != nl_b and not near_boundary(slot[par][2], 2e-3) and not near_boundary(other[2], 2e-3):
                    if cur != prev:
                        fails.append("segment %d: zone-straddling pair changed the position to (%s,%s)" % (k, row["lat"], row["lon"]))
                    expect_commit = None
                else:
                    expect_commit = None     # too close to a boundary to call
        if expect_commit is False and cur != prev:
            why = "no valid pair"
            fails.append("segment %d: position changed to (%s,%s) although %s (frame %s)" % (k, row["lat"], row["lon"], why, tr))
        prev = cur
    return fails


CLAIM = {
    "text": "Theorems C08_* (Coq; guard and CPR-correctness statements are closed under the global context, the NL-table statement rests on the standard real-number axioms): the position fields change only if both CPR slots are non-zero, hold frames of the same kind, were received less than 10 whole seconds apart, the type code is 5-18, the recovered latitudes have equal NL and the result is in range -- a single frame, a stale pair, a mixed surface/airborne pair, a zero field or a zone-straddling pair leave lat/lon/distance/position time exactly as they were; a committed position is the CPR decode anchored on the frame just received, in range, with the distance tag of the configured observer; CPR DECODING IS PROVED CORRECT in exact arithmetic for latitude and longitude: when the two slots hold the DO-260B encodings of one true position with |lat| < 89 and the pair commits, the position shown is within (360/59)/2^18 degrees of the true latitude and (360/NL)/2^18 degrees of the true longitude modulo 360 (a few metres), for either frame order, with longitude in [-180,180) (C08_latitude_*, C08_longitude_*, C08_decode_correct, C08_position_shown_is_correct; a two-longitude generalisation covers movement between the frames); every boundary of the NL table regenerated from position.rs is the DO-260B transition latitude rounded to 8 decimals (Interval). Tied to the code with true positions over every NL zone and both sides of every boundary, equator, antimeridian, both hemispheres, both parities first, delays around 10 s, interleaved frames, +/-U, observers with blanks; the oracle checks that every shown position is within 20 m of the encoded one and the distance column against the great-circle distance.",
    "note": "The correctness theorems are in degrees on the exact-rational model; the conversion to metres (within 20 m) and the f64 arithmetic of the implementation are covered by the oracle and the correspondence (tolerance 1e-7 deg; cases within 1e-3 deg of an NL boundary are not judged); haversine is evaluated in double precision by comparer and oracle; surface (TC 5-8) decoding accuracy is not claimed.",
    "technique": "Coq proof of the guard/unchanged/range statements + Interval proof of the NL table on the regenerated data; differential runs with simulated clock and a truth-based oracle",
}
