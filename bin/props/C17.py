"""C17 -- registration country follows the ICAO address allocation for all 2^24 addresses."""
import os, re
from sqgen import *

ID = "C17"
TARGETS = ["Properties/C17.vo"]
FIELDS = None
EXPLANATION = ("theorem: for all 2^24 addresses the regenerated prefix table = lookup in the frozen Annex 10 block list (both sides factor "
               "through the top 14 bits, then a kernel-evaluated sweep of the 16384 prefixes), blocks pairwise disjoint; the translator is "
               "validated by running the real icao_to_country over the prefixes (quick) / the whole address space (thorough)")
ASSUMPTIONS = ["Spec/Annex10.v is a frozen transcription of Annex 10 Vol III Table 9-1; the theorem is exactly as good as that transcription"]

_blocks = None


def blocks():
    global _blocks
    if _blocks is None:
        p = os.path.join(os.path.dirname(os.path.dirname(os.path.dirname(os.path.abspath(__file__)))), "coq", "Spec", "Annex10.v")
        _blocks = [(int(a), int(b), c) for a, b, c in re.findall(r'\((\d+), (\d+), "([^"]*)"%string\)', open(p, encoding="utf-8").read())]
    return _blocks


def spec(a):
    for f, n, c in blocks():
        if f <= a < f + n:
            return c
    return "??"


def gen(seed, tier):
    cases = []
    if tier == "quick":
        for i, off in enumerate((0, 0x1FF, 0x3FF)):
            for j in range(16):
                cases.append(("C17-%d-%d" % (i, j), "K", "-", "%d:%d:%d" % (off + j * 1024 * 1024, 1024, 1024)))
        r = random.Random(seed)
        for j in range(16):
            cases.append(("C17-r%d" % j, "K", "-", "%d:%d:%d" % (r.randrange(0, 1 << 23), 2000, r.choice([1, 3, 1023, 4097]))))
    else:
        for j in range(256):
            cases.append(("C17-all-%d" % j, "K", "-", "%d:%d:%d" % (j * 65536, 65536, 1)))
    # the code shown in the ROW, whatever format the aircraft was first heard on (every supported DF creates rows) and
    # whatever follows: first frame of each format, then other formats, +/-U
    g = Gen(seed * 1000003 + 17)
    r = g.r
    bl = blocks()
    for i in range(40 if tier == "quick" else 400):
        o = {"U": 1} if i % 2 else {}
        segs = []
        used = []

        def mk(df, a):
            if df in (0, 4, 5):
                return g.f_short(df, a)
            if df == 11:
                return g.f_df11(a)
            if df in (17, 18):
                return g.f_df17(a, g.me_random_tc(), df=df)
            return g.f_long(df, a)
        for _ in range(4):
            f, n, c = r.choice(bl)
            a = r.choice([f, f + n - 1, f + r.randrange(n), (f + n) & 0xFFFFFF or 1, r.getrandbits(24) or 1])
            used.append(a)
            segs.append(seg(0, [mk(r.choice([0, 4, 5, 11, 16, 17, 18, 18, 20, 21]), a)]))
            segs.append(seg(0, [mk(r.choice([4, 5, 11, 17, 18, 20]), a)]))
        # ... and after silences (the row is kept: no sweep runs in these one-line reader runs): the country is still there
        t = 0
        for _ in range(3):
            t += r.choice([500, 29500, 31000, 45000, 59000, 120000])
            segs.append(seg(t, [mk(r.choice([4, 5, 11, 17, 18, 20, 21]), r.choice(used))]))
        cases.append(H("C17-h%d" % i, o, segs))
    # neighbours across a block boundary heard one after the other, in descending as well as ascending order, in one reader run
    # and in separate ones: the code of a row never depends on which address was looked up before it
    for i in range(30 if tier == "quick" else 300):
        lines = []
        for _ in range(r.randint(2, 5)):
            f, n, c = r.choice(bl)
            hi = f + r.randrange(min(n, 1024))
            lo = (f - 1 - r.randrange(1023)) & 0xFFFFFF or 1
            top = (f + n - 1 - r.randrange(min(n, 1024)))
            above = (f + n + r.randrange(1023)) & 0xFFFFFF or 1
            pair = r.choice([[hi, lo], [lo, hi], [above, top], [top, above], [hi, lo, hi], [above, top, lo]])
            lines += [mk(r.choice([4, 5, 11, 17, 18, 20]), a) for a in pair]
        o = {"U": 1} if i % 2 else {}
        cases.append(H("C17-d%d" % i, o, [seg(0, lines)] if i % 3 else [seg(0, [l]) for l in lines]))
    # the code as SHOWN in the table row (kind D renders rows): every block is visited, the blocks with a five-letter code
    # (ICAO1 / ICAO2) and unallocated addresses in every case
    long_blocks = [b for b in bl if len(b[2]) > 2]
    for i in range(6 if tier == "quick" else 40):
        picks = r.sample(bl, 14) + long_blocks
        addrs = []
        for f, n, c in picks:
            addrs.append(r.choice([f, f + n - 1, f + r.randrange(n)]) or 1)
        addrs += [a for a in (r.getrandbits(24) for _ in range(4)) if a]
        lines = [r.choice([g.f_df11(a), g.f_short(4, a), g.f_df17(a, g.me_ident())]) for a in addrs]
        cases.append(D("C17-d%d" % i, {"i": r.choice(["x", "e", "aAews"])}, [seg(0, lines)]))
    return cases


def oracle(parts, outcome, obs):
    if outcome.replace("+slow", "") != "ok":
        return "outcome %s" % outcome
    if parts[1] == "D":
        import pyspec
        for k, o in enumerate(obs.split("#")):
            for a, row in pyspec.rows_of(o).items():
                line = row.get("disp", "").replace("_", " ")
                want = spec(a)
                if not line[7:].startswith(want.ljust(2) + " "):
                    return "the table row of %06X shows country %r, Annex 10 block list says %s" % (a, line[7:13], want)
        return None
    if parts[1] == "H":
        import pyspec
        for k, o in enumerate(obs.split("#")):
            for a, row in pyspec.rows_of(o).items():
                if row.get("reg", "").strip('"') != spec(a):
                    return "segment %d: aircraft %06X shows country %s, Annex 10 block list says %s" % (k, a, row.get("reg"), spec(a))
        return None
    start, count, step = [int(x) for x in parts[3].split(":")]
    codes = obs.split(",")
    if len(codes) != count:
        return "count %d expected %d" % (len(codes), count)
    for i, c in enumerate(codes):
        a = start + i * step
        if a >= 1 << 24:
            continue
        w = spec(a)
        if c != w:
            return "address %06X shows %s, Annex 10 block list says %s" % (a, c, w)
    return None


CLAIM = {
    "text": "Theorems C17_country / C17_blocks_disjoint / C17_row (Coq, closed): for every address below 2^24 the country code computed from the prefix table -- regenerated from country_icao_mask.rs on every run -- equals the code of the Annex 10 allocation block containing the address and '??' outside every block; no address lies in two blocks; the code stored in a new row is that code, and OVER ALL HISTORIES the country field of every row of every reachable table is the code of the row's address (C17_reachable_rows: no update function writes it). The translator is validated each run by executing the real function on all 16384 14-bit prefixes at three offsets plus strided samples (quick) or on all 16,777,216 addresses (thorough), against both the extracted model and the frozen block list; rows created by a first frame of every supported format (DF18 included) and updated by others are checked against the block list.",
    "note": "The reference (Spec/Annex10.v) is a frozen transcription of the ICAO table; any later edit of the Rust table is judged against it.",
    "technique": "Coq proof: factor-through-prefix lemmas for table and block list + reflection sweep over 2^14 prefixes on the regenerated table; exhaustive translator validation",
}
