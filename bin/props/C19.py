"""C19 -- presentation options never change what is decoded; -U is decode-neutral."""
from sqgen import *
import pyspec
import sqcmp

ID = "C19"
TARGETS = ["Properties/C19.vo"]
FIELDS = None
EXPLANATION = ("theorems: the table computed by the reader loop depends on the options only through use_update, relaxed, filter, delete_after and "
               "observer (step-by-step simulation, induction over the stream); options differing only in the observer give tables equal except "
               "for the distance. Correspondence / oracle: the same histories under pairs of option sets differing only in presentation options "
               "(-i -o -c -u -M), only in -O, and only in -U (valid-value DF4/5/11/17 histories with time steps), row by row on the real code")
ASSUMPTIONS = ["file I/O of -D / -l is outside the model"]

PROJ_U = ["ais", "alt", "sq", "lat", "lon", "gs", "trk", "vr", "cat", "ss"]


def valid_frame(g, icao):
    """DF4/5/11/17 frames whose carried values are all valid"""
    r = g.r
    k = r.randint(0, 9)
    if k == 0:
        return g.f_df11(icao)
    if k == 1:
        return g.f_short(4, icao, (r.getrandbits(14) << 13) | ac13_from_alt25(r.choice([40, 40, 41, 2047, r.randint(40, 2047)])))
    if k == 2:
        return g.f_short(5, icao)
    if k == 3:
        return g.f_df17(icao, g.me_ident())
    if k in (4, 5, 6):
        return g.f_df17(icao, g.me_airpos(r.choice([52.2, 52.21, -33.5]), r.choice([4.1, 4.11, 150.2]), None, None, r.choice([40, 41, 2047, r.randint(40, 2047)])))
    if k == 7:
        return g.f_df17(icao, me_velocity(r.choice([1, 2]), r.randint(0, 1), r.choice([1, 2, 1023, r.randint(1, 1023)]), r.randint(0, 1),
                                          r.choice([1, 2, 1023, r.randint(1, 1023)]), 0,
                                          r.randint(0, 1), r.choice([1, 2, 511, r.randint(1, 511)]), r.randint(0, 1), r.randint(0, 127)))
    if k == 8:
        return g.f_df17(icao, g.me_surfpos())
    return g.f_df17(icao, g.me_random_tc(r.choice([20, 21, 22, 31, 0, 23, 28])))


def history(g, frame_fn, junk=0.05):
    r = g.r
    pool = r.sample(ICAOS, r.randint(1, 3))
    t = 0
    segs = []
    for _ in range(r.randint(1, 5)):
        lines = []
        for _ in range(r.randint(1, 14)):
            lines.append(g.junk_line() if r.random() < junk else frame_fn(r.choice(pool)))
        segs.append(seg(t, lines))
        t += r.choice([0, 500, 3000, 9500, 10000, 10500, 30000, 61000])
    return segs


def pres_opts(r):
    o = {"i": r.choice(["Q", "aAews", "e", "x", "Aw"]), "o": r.choice(["sA", "x", "dN", "vc+a"]), "u": r.choice([3, 0, -1, 1000])}
    if r.random() < 0.5:
        o["c"] = 1
    if r.random() < 0.3:
        o["M"] = r.choice(["17", "4+5", "99"])
    return o


def gen(seed, tier):
    g = Gen(seed * 1000003 + 19)
    r = g.r
    cases = []
    n = 60 if tier == "quick" else 600
    for i in range(n):
        segs = history(g, g.any_frame)
        core = {}
        if r.random() < 0.5:
            core["U"] = 1
        if r.random() < 0.4:
            core["R"] = 1
        if r.random() < 0.3:
            core["d"] = r.choice([5, 60])
        if r.random() < 0.3:
            core["f"] = "+".join(str(x) for x in r.sample([4, 5, 11, 17, 20, 21], 3))
        for tag in ("a", "b"):
            o = dict(core)
            o.update(pres_opts(r))
            cases.append(H("C19-p%d-%s" % (i, tag), o, segs))
    for i in range(n):
        segs = history(g, g.any_frame)
        core = {"U": 1} if r.random() < 0.5 else {}
        for tag in ("a", "b"):
            o = dict(core)
            o["O"] = ("%.3f,%.3f" % (r.uniform(-80, 80), r.uniform(-170, 170))).encode().hex().upper()
            if i % 3 == 0 and tag == "b":
                del o["O"]      # no observer at all (what an unparsable -O amounts to): still only the distance differs
            cases.append(H("C19-o%d-%s" % (i, tag), o, segs))
    # the downlink log (-D) is a logging option: with it the table is what it is without it, for frames of every format
    # (DF18 and the formats the decoder only files by address included)
    for i in range(n // 2):
        pool = r.sample(ICAOS, 3)
        lines = []
        for _ in range(r.randint(4, 14)):
            lines.append(g.odd_frame(r.choice([0, 4, 5, 11, 16, 17, 17, 18, 18, 20, 21, 19, 24, r.randint(0, 31)]), r.choice(pool)))
        core = {"U": 1} if i % 2 else {}
        segs = [seg(0, lines[:len(lines) // 2]), seg(500, lines[len(lines) // 2:])]
        cases.append(H("C19-p%dL-a" % i, dict(core), segs))
        cases.append(H("C19-p%dL-b" % i, dict(core, D=1), segs))
    # position frames whose CPR fields are zero (one or both), between ordinary pairs: both paths treat them alike
    for i in range(n // 3):
        icao = r.choice(ICAOS)
        lat, lon = r.choice([(0.01, 0.01), (-0.01, -0.01), (r.uniform(-60, 60), r.uniform(-170, 170))])
        tc = r.randint(9, 18)
        alt = r.getrandbits(12) | 0x10
        fr = []
        t = 0
        for step in range(r.randint(4, 8)):
            k = r.random()
            par = r.randint(0, 1)
            if k < 0.35:
                la, lo = r.choice([(0, 0), (0, r.getrandbits(17) | 1), (r.getrandbits(17) | 1, 0)])
                me = me_airborne_pos(tc, alt, par, la, lo)
            else:
                me = g.me_airpos(lat + r.uniform(-0.0005, 0.0005), lon + r.uniform(-0.0005, 0.0005), par, tc)
            fr.append(seg(t, [g.f_df17(icao, me)]))
            t += r.choice([0, 500, 1000, 4000])
        cases.append(H("C19-u%dz-a" % i, {}, fr))
        cases.append(H("C19-u%dz-b" % i, {"U": 1}, fr))
    for i in range(2 * n):
        segs = history(g, lambda a: valid_frame(g, a), junk=0.0)
        cases.append(H("C19-u%d-a" % i, {}, segs))
        cases.append(H("C19-u%d-b" % i, {"U": 1}, segs))
    return cases


def oracle(parts, outcome, obs):
    if outcome.replace("+slow", "") != "ok":
        return "outcome %s" % outcome
    return None


def oracle_all(idx, impl):
    out = []
    for cid in idx:
        if not cid.endswith("-a"):
            continue
        other = cid[:-2] + "-b"
        if cid not in impl or other not in impl:
            continue
        a, b = impl[cid], impl[other]
        if "+slow" in a[0] or "+slow" in b[0] or a[0] != "ok" or b[0] != "ok":
            continue
        sa, sb = sqcmp.parse_obs(a[1]), sqcmp.parse_obs(b[1])
        kind = cid.split("-")[1][0]
        if len(sa) != len(sb):
            out.append((other, "different number of observations"))
            continue
        for k, (ra, rb) in enumerate(zip(sa, sb)):
            ka = [x.get("key") for x in ra]
            kb = [x.get("key") for x in rb]
            if ka != kb:
                out.append((other, "segment %d: aircraft in the table differ between the two option sets: %s vs %s" % (k, ka, kb)))
                break
            bad = None
            for xa, xb in zip(ra, rb):
                if kind == "p":
                    fs = [f for f in xa if xa[f] != xb.get(f)]
                elif kind == "o":
                    fs = [f for f in xa if f != "dist" and xa[f] != xb.get(f)]
                else:
                    fs = [f for f in PROJ_U if xa.get(f) != xb.get(f)]
                if fs:
                    bad = (xa.get("key"), fs, [(xa.get(f), xb.get(f)) for f in fs[:3]])
                    break
            if bad:
                what = {"p": "presentation options", "o": "the observer", "u": "-U"}[kind]
                out.append((other, "segment %d: row %s differs in %s %s between option sets that differ only in %s" % (k, bad[0], bad[1], bad[2], what)))
                break
    return out


CLAIM = {
    "text": "Theorems C19_presentation_step/_stream/C19_presentation, C19_observer_only_distance, C19_U_neutral_frame/_table (Coq, closed): for option records that agree on use_update, relaxed, filter, delete_after and observer, the reader loop produces the same table from the same stream whatever -i, -o, -c, -u are (step simulation + induction; the model of the loop does read those options); option records differing only in the observer give tables that agree on every field except the distance; and for a DF4/5/11/17 frame whose carried value is valid, the squitter path (-U) and the downlink path (default) agree on callsign, altitude, squawk, position, distance, ground speed, track, vertical rate, category, surveillance status, the CPR slots and the time stamps whenever the rows agreed before (per frame kind, lifted to the table update). Tied to the code by running the same generated histories on the real reader under pairs of option sets differing only in presentation options, only in -O, and only in -U, comparing row by row, and each run with the extracted model.",
    "note": "-U neutrality is proved per frame on an existing row and checked end-to-end by the pairwise differential runs (row creation always uses the downlink path in both modes); -D / -l file logging is outside the model.",
    "technique": "Coq proof: simulation relation over the reader loop (induction over the stream); pairwise differential runs on the implementation",
}
