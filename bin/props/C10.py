"""C10 -- Comm-B data are shown only when valid, advertised and correctly decoded."""
from sqgen import *
import pyspec

ID = "C10"
TARGETS = ["Properties/C10.vo"]
FIELDS = ["key", "ca", "cf", "cb", "ais", "te", "sela", "baro", "tas_", "roll", "trk", "tar", "gs", "tas", "hdg", "ias", "mach", "vr"]
EXPLANATION = ("theorems: every BDS 4,0/5,0/6,0 field decoder = Doc 9871 layout (status/sign/magnitude, floors) for every frame; a register test "
               "succeeds only with all status bits set, non-zero fields, reserved bits zero and plausible values, and succeeds whenever those "
               "hold; with the capability gate closed no Comm-B field changes; without the BDS 1,7 advert (and no -R) the register's fields do "
               "not change. Correspondence + oracle: registers synthesised from physical values over full ranges and both signs, limits +/-1 "
               "LSB, each status bit cleared, reserved bits set, random MB, all orders of DF11 / BDS 1,7 / data replies, +/-R +/-U, DF20/DF21")
ASSUMPTIONS = ["'all status bits' of BDS 4,0 is read as the status bits of its three value fields (bits 1, 14, 27 of MB); the mode/source status bits are not required",
               "integer results are floors of the physical value (what the shifts compute), e.g. a roll of -0.18 deg shows -1"]

MBF = ["sela", "baro", "tas_", "roll", "trk", "tar", "gs", "tas", "hdg", "ias", "mach", "vr", "ais", "te", "cf", "cb"]


def twos(sign, v, bits):
    return v - (1 << bits) * sign


def mb(v, sb, eb):
    return getbits(v, 112, 32 + sb, 32 + eb)


def dec17(v):
    if mb(v, 7, 7) != 1 or mb(v, 29, 56) != 0:
        return None
    c = mb(v, 1, 24)
    return {"cf": str(c), "cb": "1%d%d%d%d" % ((c >> 15) & 1, (c >> 11) & 1, (c >> 8) & 1, c & 1)}


def dec40(v):
    if not (mb(v, 1, 1) and mb(v, 2, 13) and mb(v, 14, 14) and mb(v, 15, 26) and mb(v, 27, 27) and mb(v, 28, 39)):
        return None
    if mb(v, 40, 47) or mb(v, 52, 53):
        return None
    baro = mb(v, 28, 39) // 10 + 800
    src = mb(v, 55, 56) if mb(v, 54, 54) else None
    return {"sela": str(mb(v, 2, 13) * 16), "baro": str(baro) if 800 <= baro <= 1210 else "-",
            "tas_": {1: "8321", 2: "8322", 3: "8323"}.get(src, "32")}


def dec50(v):
    st = [mb(v, 1, 1), mb(v, 12, 12), mb(v, 24, 24), mb(v, 35, 35), mb(v, 46, 46)]
    vals = [mb(v, 3, 11), mb(v, 14, 23), mb(v, 25, 34), mb(v, 37, 45), mb(v, 47, 56)]
    if not all(st) or not all(vals):
        return None
    roll = (twos(mb(v, 2, 2), mb(v, 3, 11), 9) * 45) // 256
    trk = (mb(v, 14, 23) * 90) // 512 + (180 if mb(v, 13, 13) else 0)
    gs = mb(v, 25, 34) * 2
    tar = (twos(mb(v, 36, 36), mb(v, 37, 45), 9) * 8) // 256
    tas = mb(v, 47, 56) * 2
    if abs(roll) > 50 or trk > 360 or gs > 600 or tas > 500 or abs(gs - tas) >= 200:
        return None
    return {"roll": str(roll), "trk": str(trk), "gs": str(gs), "tar": str(tar), "tas": str(tas)}


def dec60(v):
    st = [mb(v, 1, 1), mb(v, 13, 13), mb(v, 24, 24), mb(v, 35, 35), mb(v, 46, 46)]
    vals = [mb(v, 3, 12), mb(v, 14, 23), mb(v, 25, 34), mb(v, 37, 45), mb(v, 48, 56)]
    if not all(st) or not all(vals):
        return None
    hdg = (mb(v, 3, 12) * 90) // 512 + (180 if mb(v, 2, 2) else 0)
    ias = mb(v, 14, 23)
    mach = mb(v, 25, 34) * 0.004
    br = twos(mb(v, 36, 36), mb(v, 37, 45), 9) * 32
    iv = twos(mb(v, 47, 47), mb(v, 48, 56), 9) * 32
    if hdg > 360 or mb(v, 25, 34) > 250 or abs(br) > 6000 or abs(iv) > 6000:
        return None
    return {"hdg": str(hdg), "ias": str(ias), "mach": mach, "vr": str(br)}


def plausible_regs(g):
    """clean registers built from physical values: full ranges, both signs, limits +/- 1 LSB"""
    r = g.r
    k = r.randint(0, 2)
    if k == 0:
        return ("40", bds40(r.choice([1, 4095, r.randint(1, 4095)]), r.choice([1, 4095, r.randint(1, 4095)]), r.choice([1, 4095, 4100 % 4096, r.randint(1, 4095)]),
                            0, 0, r.choice([None, 0, 1, 2, 3]), r.choice([None, 5])))
    if k == 1:
        roll = r.choice([(0, 1), (0, 284), (0, 285), (1, 228), (1, 227), (1, 511), (0, r.randint(1, 284)), (1, r.randint(228, 511))])
        gs = r.choice([1, 300, 301, r.randint(1, 300)])
        tas = r.choice([max(1, gs - 99), min(250, gs + 99), max(1, min(250, gs + r.randint(-99, 99))), 250, 251])
        return ("50", bds50(roll, (r.randint(0, 1), r.choice([1, 1023, r.randint(1, 1023)])), gs,
                            r.choice([(0, 1), (0, 511), (1, 1), (1, 511), (r.randint(0, 1), r.randint(1, 511))]), tas))
    br = r.choice([(0, 187), (0, 188), (1, 325), (1, 324), (0, r.randint(1, 187)), (1, r.randint(325, 511))])
    iv = r.choice([(0, 187), (1, 325), (0, r.randint(1, 187)), (1, r.randint(325, 511))])
    return ("60", bds60((r.randint(0, 1), r.choice([1, 1023, r.randint(1, 1023)])), r.choice([1, 1023, r.randint(1, 1023)]),
                        r.choice([1, 250, 251, r.randint(1, 250)]), br, iv))


def spoil(g, kind, m):
    """clear one status bit or set a reserved bit"""
    r = g.r
    if kind == "40":
        b = r.choice([1, 14, 27, 40 + r.randint(0, 7), 52, 53])
        return m ^ (1 << (56 - b)) if b in (1, 14, 27) else m | (1 << (56 - b))
    if kind == "50":
        return m & ~(1 << (56 - r.choice([1, 12, 24, 35, 46])))
    return m & ~(1 << (56 - r.choice([1, 13, 24, 35, 46])))


def clean_reg(g, kind):
    r = g.r
    if kind == "40":
        return bds40(r.randint(1, 4095), r.randint(1, 4095), r.randint(1, 4095), 0, 0, r.choice([None, 1, 2, 3]))
    if kind == "50":
        gs = r.randint(1, 300)
        return bds50(r.choice([(0, r.randint(1, 284)), (1, r.randint(228, 511))]), (r.randint(0, 1), r.randint(1, 1023)), gs,
                     (r.randint(0, 1), r.randint(1, 511)), max(1, min(250, gs + r.randint(-99, 99))))
    return bds60((r.randint(0, 1), r.randint(1, 1023)), r.randint(1, 1023), r.randint(1, 250),
                 r.choice([(0, r.randint(1, 187)), (1, r.randint(325, 511))]), r.choice([(0, r.randint(1, 187)), (1, r.randint(325, 511))]))


def ambiguous_50_60(g):
    """a valid BDS 5,0 register that also satisfies the BDS 6,0 rules (westerly track, slow): only 5,0 may be applied"""
    r = g.r
    gs = r.randint(1, 125)            # 6,0 reads this field as Mach: <= 250
    tas = max(1, min(93, gs + r.randint(-40, 40)))   # 6,0 reads bits 47-56 as sign + inertial rate
    return bds50(r.choice([(0, r.randint(1, 280)), (1, r.randint(232, 511))]), (1, r.randint(1, 1023)), gs,
                 r.choice([(0, r.randint(1, 187)), (1, r.randint(325, 511))]), tas)


ADV_BIT = {"40": 9, "50": 16, "60": 24}
STATUS = {"40": [1, 14, 27], "50": [1, 12, 24, 35, 46], "60": [1, 13, 24, 35, 46]}
RESERVED = {"40": list(range(40, 48)) + [52, 53], "50": [], "60": []}


def gen(seed, tier):
    g = Gen(seed * 1000003 + 10)
    r = g.r
    cases = []
    n = 0
    # (a) gating matrix: every subset of advertised registers x every register x -R x -U x capability
    for adv in range(8):
        bits = [ADV_BIT[k] for i, k in enumerate(("40", "50", "60")) if adv >> i & 1]
        for kind in ("40", "50", "60"):
            for rel in (0, 1):
                for u in (0, 1):
                    for ca in ((5, 0) if tier != "quick" else (5,)):
                        icao = r.choice(ICAOS)
                        o = {}
                        if rel:
                            o["R"] = 1
                        if u:
                            o["U"] = 1
                        segs = [seg(0, [g.f_df11(icao, ca=ca)]), seg(0, [g.f_long(r.choice([20, 21]), icao, None, bds17(bits))]),
                                seg(0, [g.f_long(r.choice([20, 21]), icao, None, clean_reg(g, kind))])]
                        cases.append(H("C10-m%d" % n, o, segs))
                        n += 1
    # (d) the capability is the CA field of DF11 (and of DF17 under -U), never the CF field of a DF18 frame: DF18 / DF17 frames
    #     with every 3-bit value between the capability report and the Comm-B reply, both gate directions
    for cf in range(8):
        for ca in (5, 0, 3, 4):
            for df in (18, 17):
                for u in (0, 1):
                    icao = r.choice(ICAOS)
                    o = {"U": 1} if u else {}
                    kind = r.choice(["40", "50", "60"])
                    segs = [seg(0, [g.f_df11(icao, ca=ca)]), seg(0, [g.f_long(20, icao, None, bds17([9, 16, 24]))]),
                            seg(0, [g.f_df17(icao, g.me_random_tc(r.choice([11, 19, 4, 29])), ca=cf, df=df)]),
                            seg(0, [g.f_long(r.choice([20, 21]), icao, None, clean_reg(g, kind))]),
                            seg(0, [g.f_long(r.choice([20, 21]), icao, None, bds20([r.randint(1, 26) for _ in range(8)]))])]
                    cases.append(H("C10-d%d" % n, o, segs))
                    n += 1
    # (e) capability reports change over time: a later BDS 1,7 report adds or withdraws registers; ACAS reports (BDS 3,0) with a
    #     threat, several, and none again
    for i in range(16 if tier == "quick" else 160):
        icao = r.choice(ICAOS)
        o = {"U": 1} if i % 2 else {}
        regs = ["40", "50", "60"]
        first = r.sample(regs, r.randint(0, 2))
        second = r.sample(regs, r.randint(1, 3))
        kind = r.choice(regs)
        segs = [seg(0, [g.f_df11(icao, ca=5)]),
                seg(0, [g.f_long(20, icao, None, bds17([ADV_BIT[x] for x in first]))]),
                seg(0, [g.f_long(r.choice([20, 21]), icao, None, clean_reg(g, kind))]),
                seg(0, [g.f_long(21, icao, None, bds17([ADV_BIT[x] for x in second]))]),
                seg(0, [g.f_long(r.choice([20, 21]), icao, None, clean_reg(g, kind))]),
                seg(0, [g.f_long(20, icao, None, bds17([ADV_BIT[x] for x in first]))]),
                seg(0, [g.f_long(r.choice([20, 21]), icao, None, clean_reg(g, kind))])]
        for bits in r.sample([0, 1 << 47, 1 << 28, (1 << 47) | (1 << 28), 0, 1 << 47], 4) + [0]:
            segs.append(seg(0, [g.f_long(r.choice([20, 21]), icao, None, bds30(bits | (r.getrandbits(18) << 1)))]))
        cases.append(H("C10-e%d" % n, o, segs))
        n += 1
    # (f) the FIRST frame heard from an aircraft is a Comm-B reply (callsign, registers, ACAS): it creates the row and nothing more
    for i in range(12 if tier == "quick" else 120):
        icao = r.choice(ICAOS)
        o = {"U": 1} if i % 2 else {}
        kind, m = plausible_regs(g)
        first = r.choice([bds20([r.randint(1, 26) for _ in range(8)]), m, bds30((1 << 47) | r.getrandbits(18)), bds17([9, 16, 24])])
        segs = [seg(0, [g.f_long(r.choice([20, 21]), icao, None, first)]), seg(0, [g.f_df11(icao, ca=5)])]
        cases.append(H("C10-f%d" % n, o, segs))
        n += 1
    # (c) first match wins: a register that satisfies the rules of two registers is decoded as the earlier one only
    for i in range(24 if tier == "quick" else 200):
        icao = r.choice(ICAOS)
        o = {"R": 1} if i % 3 == 0 else {}
        if i % 2:
            o["U"] = 1
        segs = [seg(0, [g.f_df11(icao, ca=5)]), seg(0, [g.f_long(20, icao, None, bds17([9, 16, 24]))]),
                seg(0, [g.f_long(21, icao, None, clean_reg(g, "60"))]), seg(0, [g.f_long(20, icao, None, clean_reg(g, "40"))]),
                seg(0, [g.f_long(20, icao, None, ambiguous_50_60(g))])]
        cases.append(H("C10-a%d" % n, o, segs))
        n += 1
    # (b) every status bit cleared and every reserved bit set, one at a time, gate open and register advertised
    for kind in ("40", "50", "60"):
        for b in STATUS[kind] + RESERVED[kind]:
            for rel in (0, 1):
                icao = r.choice(ICAOS)
                base = clean_reg(g, kind)
                spoiled = base ^ (1 << (56 - b)) if b in STATUS[kind] else base | (1 << (56 - b))
                o = {"R": 1} if rel else {}
                segs = [seg(0, [g.f_df11(icao, ca=5)]), seg(0, [g.f_long(20, icao, None, bds17([9, 16, 24]))]),
                        seg(0, [g.f_long(21, icao, None, clean_reg(g, kind))]), seg(0, [g.f_long(20, icao, None, spoiled)])]
                cases.append(H("C10-s%d" % n, o, segs))
                n += 1
    for i in range(500 if tier == "quick" else 6000):
        icao = r.choice(ICAOS)
        o = {}
        if r.random() < 0.35:
            o["R"] = 1
        if r.random() < 0.5:
            o["U"] = 1
        steps = []
        # an order of DF11 (CA 0..7), BDS 1,7 (some capability bits), data replies
        n = r.randint(2, 6)
        for _ in range(n):
            x = r.random()
            if x < 0.25:
                steps.append(g.f_df11(icao, ca=r.choice([0, 3, 4, 5, 7, r.randint(0, 7)])))
            elif x < 0.45:
                steps.append(g.f_long(r.choice([20, 21]), icao, None, bds17([b for b in (9, 16, 24, 13) if r.random() < 0.6])))
            elif x < 0.85:
                kind, m = plausible_regs(g)
                if r.random() < 0.25:
                    m = spoil(g, kind, m)
                steps.append(g.f_long(r.choice([20, 21]), icao, None, m))
            elif x < 0.92:
                steps.append(g.f_long(r.choice([20, 21]), icao, None, g.mb_any()))
            else:
                steps.append(g.f_long(r.choice([20, 21]), icao, None, r.choice([bds20([r.randint(0, 63) for _ in range(8)]), bds30(r.getrandbits(48))])))
        segs = [seg(0, [g.f_short(5, icao)])] + [seg(0, [s]) for s in steps]
        cases.append(H("C10-%d" % i, o, segs))
    return cases


def oracle(parts, outcome, obs):
    if outcome.replace("+slow", "") != "ok":
        return "outcome %s" % outcome
    opts = pyspec.case_opts(parts)
    relaxed = opts.get("R") == "1"
    segs = pyspec.case_segments(parts)
    osegs = obs.split("#")
    fails = []
    prev = None
    use_u = opts.get("U") == "1"
    adv_spec = "00000"               # register flags of the latest BDS 1,7 report decoded with the gate open
    cap_strict = cap_lenient = 0     # CA of the latest DF11 (+ DF17 on an existing row under -U) / of the latest DF11 or DF17
    for k, (t, lines) in enumerate(segs):
        rows = pyspec.rows_of(osegs[k]) if k < len(osegs) else {}
        if not rows:
            return fails + ["segment %d: no row" % k]
        row = list(rows.values())[0]
        fr = pyspec.frame_of_line(lines[0])
        if fr and fr != "zero" and prev is None and fr[0] in (20, 21) and not relaxed:
            # no capability has been recorded for an aircraft heard for the first time: nothing derived from the MB field
            shown = [f for f in ("ais", "te", "sela", "baro", "roll", "tar", "tas", "hdg", "ias", "mach") if row.get(f) not in ("-", None)]
            if shown:
                fails.append("segment %d: the first frame of the aircraft is a Comm-B reply, no capability recorded and no -R, yet %s is shown" % (k, shown))
        if fr and fr != "zero" and prev is not None:
            df, icao, v, nb = fr
            if df in (20, 21) and (relaxed or (cap_strict >= 4) == (cap_lenient >= 4)):
                ca = cap_strict
                gate = relaxed or ca >= 4
                changed = [f for f in MBF if row.get(f) != prev.get(f)]
                if not gate:
                    if changed:
                        fails.append("segment %d: capability %d < 4 and no -R, yet %s changed" % (k, ca, changed))
                else:
                    adv = adv_spec
                    r17, r40, r50, r60 = dec17(v), dec40(v), dec50(v), dec60(v)
                    if r17 is not None:
                        # every accepted capability report is recorded (the latest one counts), not only the first
                        if row.get("cb") != r17["cb"]:
                            fails.append("segment %d: BDS 1,7 report advertises %s, the row records %s" % (k, r17["cb"], row.get("cb")))
                        adv_spec = r17["cb"]
                    # a BDS 3,0 report is taken as such when its reserved/validity fields allow it (MB bits 16-22 below 48,
                    # threat-type indicator bits 29-30 not the unassigned value 3)
                    if mb(v, 1, 8) == 0x20:
                        cs = '"%s"' % "".join((chr(64 + c) if 1 <= c <= 26 else (chr(c) if 48 <= c <= 57 else "")) for c in (mb(v, 9 + 6 * i, 14 + 6 * i) for i in range(8)))
                        if row.get("ais") != cs:
                            fails.append("segment %d: BDS 2,0 reply with the gate open shows callsign %s, its eight characters are %s" % (k, row.get("ais"), cs))
                    if mb(v, 1, 8) == 0x30 and mb(v, 16, 22) < 48 and mb(v, 29, 30) != 3:
                        want_te = "8306" if mb(v, 28, 28) else ("8305" if mb(v, 9, 9) else "-")
                        if row.get("te") != want_te:
                            fails.append("segment %d: BDS 3,0 report (ARA bit 41 = %d, MTE = %d) shows threat marker %s, expected %s" % (k, mb(v, 9, 9), mb(v, 28, 28), row.get("te"), want_te))
                    b1, b2 = mb(v, 1, 4), mb(v, 5, 8)
                    coded = (b1, b2) in ((1, 0), (2, 0), (3, 0))
                    # soundness: a field of a register changes only if that register's validity rules hold
                    groups = (("40", ["sela", "baro", "tas_"], r40, 1), ("50", ["roll", "tar", "tas"], r50, 3), ("60", ["hdg", "ias", "mach"], r60, 4))
                    for name, fs, dec, ai in groups:
                        ch = [f for f in fs if row.get(f) != prev.get(f)]
                        if ch and dec is None:
                            fails.append("segment %d: BDS %s fields %s changed but the MB field is not a valid %s register" % (k, name, ch, name))
                        if ch and not relaxed and adv[ai] != "1":
                            fails.append("segment %d: BDS %s fields %s changed although BDS 1,7 never advertised it (flags %s)" % (k, name, ch, adv))
                    # completeness: first register in the precedence whose rules hold, when gating allows it
                    if not coded and r17 is None:
                        for gi, (name, fs, dec, ai) in enumerate(groups):
                            if dec is None:
                                continue
                            if relaxed or adv[ai] == "1":
                                # first match wins: the registers later in the precedence must not be applied as well
                                for name2, fs2, dec2, ai2 in groups[gi + 1:]:
                                    ch2 = [f for f in fs2 if row.get(f) != prev.get(f)]
                                    if ch2:
                                        fails.append("segment %d: the MB field is a valid BDS %s register (earlier in the precedence) but BDS %s fields %s changed too" % (k, name, name2, ch2))
                                for f, want in dec.items():
                                    got = row.get(f)
                                    ok = abs(float(got) - want) < 1e-9 if (f == "mach" and got not in (None, "-")) else got == want
                                    if not ok:
                                        fails.append("segment %d: valid BDS %s register, %s shows %s, Doc 9871 decoding is %s" % (k, name, f, got, want))
                                break
                            # not advertised: the inference moves on to the next register
        if fr and fr != "zero":
            df, icao, v, nb = fr
            if df == 11 or (df == 17 and use_u and prev is not None):
                cap_strict = getbits(v, nb, 6, 8)
            if df in (11, 17):
                cap_lenient = getbits(v, nb, 6, 8)
        prev = row
    return fails


CLAIM = {
    "text": "Theorems (Coq, closed): each BDS 4,0 / 5,0 / 6,0 field decoder equals the Doc 9871 layout on its status, sign and magnitude bits for every 112-bit frame (two's complement, floors); is_bds_4_0/5_0/6_0 return a register only if all its status bits are set, its value fields non-zero, its reserved bits zero and the plausibility limits hold, and do return it whenever they hold; with no -R and a recorded capability below 4 a DF20/21 reply changes no Comm-B derived field; without -R a register that BDS 1,7 has not advertised changes none of its fields. Tied to the code with registers synthesised from physical values (full ranges, both signs, limits +/-1 LSB), single status bits cleared, reserved bits set, random MB fields, all short orders of DF11 / BDS 1,7 / data replies, +/-R +/-U, DF20 and DF21, with an independent Doc 9871 decoder as oracle. The stages of the decoder are characterised exactly (Proofs/CommBStages.v): an identified BDS 2,0 / 3,0 reply changes only the callsign / the threat marker (a report without a threat bit clears it), BDS 1,0 changes nothing, a BDS 1,7 report replaces the recorded register flags (the latest report counts), a reply nothing recognises -- an empty MB field in particular -- leaves the row as it was, the weather parameters change only through a recognised 4,4 / 4,5 register; callsign, threat marker and capability report are carried through the whole pipeline for DF20/21 on an existing row with the gate open (C10_stage_*, C10_nothing_recognised, C10_empty_mb, C10_weather_only_from_44_45, C10_*_end_to_end).",
    "note": "The precedence/inference order (1,7 > 4,0 > 5,0 > 6,0) is covered by the correspondence and the oracle; the theorems are per stage.",
    "technique": "Coq proof: RangeSpec rewriting of every field decoder against a Doc 9871 specification, validity/completeness of the register tests, gating via footprints; differential runs with synthesised registers + independent oracle",
}
