"""C06 -- squawk equals the octal identity code of the latest DF5/DF21 reply."""
import sqgen
from sqgen import *
import pyspec

ID = "C06"
TARGETS = ["Properties/C06.vo"]
NEED_CLI = True
FIELDS = ["key", "sq"]
EXPLANATION = ("theorem over all frames (2^13 identity codes by kernel-evaluated sweep over the four nibbles read, "
               "all other bits by an extensionality lemma); correspondence: every identity code in DF5 and DF21, "
               "first and later frames, +/-U +/-R, interleaved non-carrier frames")
ASSUMPTIONS = ["bit numbering of the ID field as in Annex 10 Vol IV 3.1.2.6.7.1",
               "the hand-written Gallina model of squawk()/ma_code() is tied to the Rust code by execution only"]


def gen(seed, tier):
    g = Gen(seed * 1000003 + 6)
    r = g.r
    cases = []
    codes = list(range(8192))
    reps = 1 if tier == "quick" else 4
    n = 0
    for rep in range(reps):
        for df in (5, 21):
            r.shuffle(codes)
            for i in range(0, 8192, 16):
                icao = g.icao() or 1
                opts = {}
                if r.random() < 0.5:
                    opts["U"] = 1
                if r.random() < 0.5:
                    opts["R"] = 1
                segs = []
                if r.random() < 0.7:
                    segs.append(seg(0, [g.f_df11(icao, ca=r.choice([0, 5]))]))
                for c in codes[i:i + 16]:
                    f27 = (r.getrandbits(14) << 13) | c
                    fr = g.f_short(5, icao, f27) if df == 5 else g.f_long(21, icao, f27, g.mb_any())
                    lines = [g.decorate(fr)]
                    # non-carrier frames afterwards must not touch it
                    for _ in range(r.choice([0, 0, 1, 3])):
                        while True:
                            x = g.any_frame(icao)
                            p = pyspec.frame_of_line(x.encode())
                            if p and p != "zero" and p[0] not in (5, 21):
                                break
                        lines.append(x)
                    segs.append(seg(0, lines))
                cases.append(H("C06-%d" % n, opts, segs))
                n += 1
    # "no other downlink format changes it": a frame of EVERY format 0..31 (the unsupported ones included: they are filed
    # under bits 9-32) addressed to an aircraft whose squawk is known
    for rep in range(2 if tier == "quick" else 20):
        for o in ({}, {"U": 1}, {"R": 1}, {"U": 1, "R": 1}):
            icao = g.icao() or 1
            code = r.getrandbits(13)
            segs = [seg(0, [g.f_df11(icao, ca=5)]), seg(0, [g.f_short(5, icao, (r.getrandbits(14) << 13) | code)])]
            dfs = [d for d in range(32) if d not in (5, 21)]
            r.shuffle(dfs)
            for d in dfs:
                segs.append(seg(0, [g.odd_frame(d, icao)]))
            cases.append(H("C06-f%d" % n, dict(o), segs))
            n += 1
    # in ONE reader run: consecutive replies whose 13-bit fields differ in exactly one bit (each of the 13 positions, the first
    # one -- bit 20, the last bit of the fifth hex digit -- included), from the same and from different aircraft, identity and
    # altitude replies mixed: every reply is decoded from its own bits, nothing is remembered from the previous frame
    for rep in range(4 if tier == "quick" else 40):
        for bit in range(13):
            pool = r.sample(ICAOS, 2)
            base = r.getrandbits(13)
            lines = []
            for k, c in enumerate([base, base ^ (1 << bit), base, base ^ (1 << bit) ^ (1 << r.randrange(13))]):
                a = pool[0] if rep % 2 else pool[k % 2]
                df = r.choice([5, 5, 21, 4]) if k else 5
                f27 = (r.getrandbits(14) << 13) | c
                lines.append(g.f_short(df, a, f27) if df in (4, 5) else g.f_long(df, a, f27, g.mb_any()))
            o = {"U": 1} if bit % 2 else {}
            cases.append(H("C06-n%d" % n, o, [seg(0, [g.f_df11(pool[0], ca=5), g.f_df11(pool[1], ca=5)] + lines)]))
            n += 1
    # the squawk as SHOWN: the SQWK cell of the CLI table holds all four digits (leading zeros included)
    for rep in range(3 if tier == "quick" else 30):
        lines = []
        for icao in r.sample(ICAOS, 6):
            a, b, c, d = r.choice([(0, 0, 0, 0), (0, 0, 0, r.randint(1, 7)), (0, 0, r.randint(1, 7), r.randint(0, 7)),
                                   (0, r.randint(1, 7), r.randint(0, 7), r.randint(0, 7)), tuple(r.randint(0, 7) for _ in range(4))])
            lines.append(g.f_short(5, icao, (r.getrandbits(14) << 13) | id13_from_squawk(a, b, c, d)))
            if r.random() < 0.5:
                lines.append(g.f_long(21, icao, (r.getrandbits(14) << 13) | id13_from_squawk(d, c, b, a), g.mb_any()))
        o = {"i": r.choice(["x", "e", "aAews"]), "u": -1, "o": "x"}
        if rep % 2:
            o["U"] = 1
        o["l"] = rep % 3          # 0: no error log, 1: -l file, 2: -l file with every log level on
        cases.append(("C06-c%d" % n, "C", opts_str(o), seg(0, lines)))
        n += 1
    return cases


def distribution(idx):
    return {"cases": len(idx), "identity codes": "all 8192 in DF5 and in DF21", "frames_per_case": 16}


def oracle(parts, outcome, obs):
    if parts[1] == "C":
        if outcome != "ok":
            return "outcome %s" % outcome
        from props.common import check_last_frame_cells
        return check_last_frame_cells(parts, obs, "".join(pyspec.case_opts(parts).get("i", "").split("+")))
    if parts[1] != "H":
        return None
    if outcome.replace("+slow", "") != "ok":
        return "outcome %s" % outcome
    segs = pyspec.case_segments(parts)
    opts = pyspec.case_opts(parts)
    osegs = obs.split("#")
    expect = {}      # icao -> (set of allowed squawk tokens)
    seen = set()
    for k, (t, lines) in enumerate(segs):
        for ln in lines:
            fr = pyspec.frame_of_line(ln)
            if not fr or fr == "zero":
                continue
            df, icao, v, nbits = fr
            if not pyspec.passes_filter(opts, df):
                continue
            if df in (5, 21):
                want = "%d" % pyspec.id13_squawk(getbits(v, nbits, 20, 32))
                if icao not in seen and df == 21:
                    expect[icao] = {want, "-"}
                else:
                    expect[icao] = {want}
            elif icao not in seen:
                expect.setdefault(icao, {"-"})
            seen.add(icao)
        if k >= len(osegs):
            return "missing observation for segment %d" % k
        rows = pyspec.rows_of(osegs[k])
        for icao, allowed in expect.items():
            if icao not in rows:
                return "aircraft %06X missing after segment %d" % (icao, k)
            if rows[icao]["sq"] not in allowed:
                return "segment %d aircraft %06X squawk %s, expected %s" % (k, icao, rows[icao]["sq"], sorted(allowed))
    return None

CLAIM = {
    "text": "Theorem C06_field (Coq, closed under the global context): for every nibble vector long enough to hold bits 20-32 the model of squawk() returns the octal digits A B C D of the identity field read with the standard's bit numbering, whatever the other bits, and cannot panic. The bit-position table is regenerated from ma_code.rs on every run so a changed table is re-judged by the kernel. The model is tied to the code by running both on every one of the 8192 codes in DF5 and DF21 (first/later frames, +/-U, +/-R, non-carrier frames interleaved). A DF5 reply that creates the row delivers its code (C06_new_row).",
    "note": "Trusted: Coq kernel + vm_compute; the table translator; extraction (ExtrOcamlBasic); the Rust harness and comparer. The row-level statements (which frames may change the squawk) are covered by the correspondence and the oracle, and by theorems as they are added to Properties/C06.v.",
    "technique": "Coq proof (reflection sweep + extensionality) over a hand model; regenerated table; differential correspondence with extracted model",
}
